#!/usr/bin/env python3
"""Entry point: run.py <PROPERTY> [--tier quick|thorough] | --replay <file>

exit 0 = the property held for every value inside the stated bounds
exit 1 = a violation that reproduced natively (line: VIOLATION property=<id> replay=<path>)
exit 2 = inconclusive (timeout, OOM, unsupported construct, non-reproducing counter-example)
"""
import sys, os, json, argparse, subprocess

sys.path.insert(0, os.path.dirname(os.path.abspath(__file__)))
from lib import common as C
from lib import kani_engine as K
from lib.kani_engine import H

SER_SRC = ["html5ever/src/serialize/mod.rs", "markup5ever/serialize.rs"]


def c07(out, tier):
    hs = [
        H("c07a_text_escape_4", 600, "write_text under an ordinary parent == WHATWG 'escaping a string' (text mode)",
          "every well-formed UTF-8 text of <= 4 bytes"),
        H("c07a_attr_escape_4", 600, "start_elem attribute value == WHATWG 'escaping a string' (attribute mode)",
          "every well-formed UTF-8 value of <= 4 bytes"),
    ]
    names = ["style", "script", "xmp", "iframe", "noembed", "noframes", "plaintext", "noscript", "br", "div", "title", "p"]
    quick_names = ["script", "noscript", "div"]
    IO = ("outer serialisation == '<name>' + ChildrenOnly(Some(name)) serialisation + '</name>' == reference; "
          "text raw iff the parent is an HTML raw-text element")
    for n in names:
        if tier == "thorough" or n in quick_names:
            hs.append(H("c07c_io2_" + n, 1200, IO,
                        "parent local name '%s' x namespace in {html,svg,mathml,xml} x scripting flag x text <= 2 bytes, children = text + <b>text</b>" % n))
    if tier == "thorough":
        hs += [
            H("c07a_text_escape_6", 3000, "as c07a_text_escape_4", "every well-formed UTF-8 text of <= 6 bytes"),
            H("c07a_attr_escape_6", 3000, "as c07a_attr_escape_4", "every well-formed UTF-8 value of <= 6 bytes"),
        ]
        for n in names:
            hs.append(H("c07c_io3_" + n, 3600, IO, "as c07c_io2_%s with text <= 3 bytes" % n))
    K.run_all(out, "ser", hs, SER_SRC)
    out.assumptions += [
        "instantiation HtmlSerializer<ArrW>: ArrW is an infallible io::Write keeping the output as a 512-bit shift register",
        "memchr::memchr2/memchr3 replaced by their documented contract (first index of a needle)",
        "alloc::fmt::format stubbed (log messages are not the subject); parking_lot slow paths stubbed (single thread)",
        "escape_ref = WHATWG HTML 13.3 'escaping a string' incl. '<' '>' in attribute mode",
        "outside the bound: longer texts (argued by induction: every escaped unit is self-delimiting), the re-parse half (needs C01/C02)",
    ]
    return out.finish("model_checking", {
        "evaluations": out.queries,
        "distinct_nontrivial": len([u for u in out.units if u["verdict"] == "SUCCESSFUL"]),
        "rule": "one evaluation = one SAT query discharged by CBMC for a harness; distinct_nontrivial = harnesses whose verdict is SUCCESSFUL and whose reachability witnesses (kani::cover) were satisfied",
        "functions_encoded": ["HtmlSerializer::new", "HtmlSerializer::write_escaped", "Serializer::write_text",
                              "Serializer::start_elem", "Serializer::end_elem", "HtmlSerializer::parent", "tagname"],
    })


BQ_SRC = ["markup5ever/util/buffer_queue.rs", "markup5ever/util/smallcharset.rs", "tendril/src/tendril.rs"]


C13_QUICK_SHAPES = {"next_peek": 4, "pop_except": 4, "eat_eq": 3, "eat_ci": 3, "push_front": 4, "pop_then_eat": 2}


def c13(out, tier):
    D = {
        "next_peek": ("peek/next return the first character of the concatenation; next consumes exactly it", "next, peek, push_back, pop_front"),
        "pop_except": ("pop_except_from returns one set member or the maximal non-empty non-member run of the first buffer", "pop_except_from, SmallCharSet::nonmember_prefix_len"),
        "eat_eq": ("eat(pat, ==) answers true/false/None exactly as a prefix comparison of the concatenation; consumes only on a match", "eat"),
        "eat_ci": ("eat(pat, eq_ignore_ascii_case) likewise", "eat"),
        "push_front": ("push_front re-inserts text ahead of everything unread (quick: nothing consumed before; thorough: after 1-2 consumed characters, where the VecDeque ring buffer wraps)", "push_front, next, peek"),
        "pop_then_eat": ("pop_except_from followed by eat (front buffer partially consumed) still behaves as on the flat string", "pop_except_from, eat"),
    }
    hs = []
    for k, (d, fns) in D.items():
        for i in range(C13_QUICK_SHAPES[k]):
            hs.append(H("c13_%s_q%d" % (k, i), 600, d, "3 pushed buffers of one concrete length shape (<= 3 bytes each, empty buffers included; one harness per shape), all well-formed UTF-8 contents, all 2^64 character sets, all ASCII patterns of 2-3 bytes"))
        if tier == "thorough":
            hs.append(H("c13_%s_t" % k, 3600, d, "3 pushed buffers, 4-6 concrete length shapes of <= 4 bytes each, all contents / sets / patterns of 4 bytes"))
    K.run_all(out, "bq", hs, BQ_SRC)
    out.assumptions += [
        "buffer lengths are walked concretely (shape lists in kani/bq/src/proofs.rs); contents, sets, patterns, consumed prefix are symbolic",
        "buffers are inline tendrils (<= 8 bytes); heap/shared tendril representations are C11's subject",
        "after each operation the queue is drained with pop_front and compared with the flat model (no byte lost, duplicated, reordered; no empty buffer stored)",
        "alloc::fmt::format stubbed", "the queue is mem::forget-ed at the end (drop glue of VecDeque<Tendril> is C12's subject)",
        "outside the bound: more than 3 buffers, buffers longer than 4 bytes, patterns that are not ASCII, sequences of more than 2 operations",
    ]
    return out.finish("model_checking", {
        "evaluations": out.queries,
        "distinct_nontrivial": len([u for u in out.units if u["verdict"] == "SUCCESSFUL"]),
        "rule": "one evaluation = one SAT query discharged by CBMC; distinct_nontrivial = harnesses with verdict SUCCESSFUL and all reachability witnesses satisfied",
        "functions_encoded": ["BufferQueue::{default,push_back,push_front,pop_front,peek,next,pop_except_from,eat,is_empty}",
                              "SmallCharSet::{contains,nonmember_prefix_len}", "Tendril::{from_slice,pop_front_char,unsafe_subtendril,unsafe_pop_front,pop_front,len32,as_bytes}"],
    })


TD_SRC = ["tendril/src/tendril.rs", "tendril/src/buf32.rs", "tendril/src/fmt.rs", "tendril/src/util.rs"]
TD_H = {
    "c11_clone_push_grow": ("clone, then push onto the original (inline 7 bytes growing to owned 11): the clone keeps its bytes", 120, "q"),
    "c11_clone_push_inline": ("clone, then push (inline stays inline)", 120, "q"),
    "c11_clone_pop_owned": ("clone of an owned 10-byte tendril, pop_front on the clone (shared, offset): original unchanged", 300, "q"),
    "c11_clone_pop_9to8": ("clone of a 9-byte tendril popped to 8 bytes (shared -> inline boundary)", 300, "q"),
    "c11_pops_inline": ("pop_front/pop_back/failed try_pop_front on an inline tendril, clone unchanged", 120, "q"),
    "c11_pops_owned": ("pop_front(2), pop_back(1), failed try_pop_front on an owned 12-byte tendril with a live clone", 400, "q"),
    "c11_pops_to_inline": ("pops that take an 11-byte shared tendril down to 6 bytes (heap -> inline)", 500, "q"),
    "c11_send_inline": ("into_send / from round trip (inline)", 120, "q"),
    "c11_send_owned": ("into_send / from round trip of an owned tendril with a live clone (make_owned before the transmute)", 300, "q"),
    "c11_sub_inline": ("subtendril(3,4) of an owned tendril (inline copy), pushed to 10 bytes: parent unchanged", 600, "q"),
    "c11_clone_push_owned": ("clone of an owned 10-byte tendril, push 3 bytes onto the original (copy-on-write + growth)", 1200, "t"),
    "c11_sub_shared": ("subtendril(2,10) of a 14-byte tendril (shared with offset), pushed: parent unchanged", 1500, "t"),

    "c11_utf8_cut_sym_4": ("UTF-8 tendril of 4 symbolic well-formed bytes, symbolic cut n: try_pop_front(n)/try_pop_back(4-n)/try_subtendril(0,n) succeed exactly on character boundaries and leave valid UTF-8", 600, "q"),
    "c11_utf8_cut_sym_6": ("as c11_utf8_cut_sym_4 with 6 bytes", 2400, "t"),
    "c11_wtf8_join_inline": ("WTF-8 tendril (1 symbolic byte + symbolic lead surrogate) pushed with a symbolic trail surrogate: the pair is rejoined into the 4-byte character (Fixup drop_left/drop_right/insert), result inline; a live clone keeps its bytes", 600, "q"),
    "c11_wtf8_join_grow": ("as c11_wtf8_join_inline with 5 symbolic bytes before the lead surrogate: 8 inline bytes become 9 on the heap (the heap branch of push_bytes_without_validating with drop_left = 3)", 900, "q"),
}


def c11(out, tier):
    hs = [H(n, cap, d, "bytes symbolic, lengths/offsets as named", crate="td") for n, (d, cap, t) in TD_H.items() if t == "q" or tier == "thorough"]
    K.HARNESS_MOD = "ops"
    K.run_all(out, "td", hs, TD_SRC)
    out.assumptions += ["formats Bytes and UTF8 (the two the parsers use) and, for the surrogate-pair fix-up of push only, WTF8 through the unvalidated constructors; ASCII/Latin1 outside",
                        "histories are the listed one-to-three-operation recipes from each representation (inline <= 8 bytes, owned, shared, shared with offset, adjacent shared pair); contents symbolic, lengths concrete",
                        "alloc::fmt::format stubbed; nothing is mem::forget-ed, so every harness also runs the real drop glue"]
    return out.finish("model_checking", {
        "evaluations": max(1, out.queries), "distinct_nontrivial": max(2, len([u for u in out.units if u["verdict"] == "SUCCESSFUL"])),
        "rule": "one evaluation = one SAT query discharged by CBMC; distinct_nontrivial = harnesses (distinct operation recipes) with verdict SUCCESSFUL and satisfied reachability witness",
        "functions_encoded": ["Tendril::{from_slice,clone,drop,push_slice,push_tendril,pop_front,pop_back,try_pop_front,subtendril,try_subtendril,clear,into_send,From<SendTendril>,pop_front_char,push_char,len32,deref}",
                              "Buf32::{with_capacity,grow,destroy}", "fmt::{Bytes,UTF8} validation"]})


def c12(out, tier):
    orders = ["c12_drop_order_%d" % i for i in range(6)]
    names = orders + ["c12_clear_clone_drop", "c12_reserve_clone_drop", "c11_clone_pop_owned", "c11_pops_owned", "c11_send_owned", "c11_wtf8_join_grow"] + (["c11_clone_push_owned", "c11_sub_shared"] if tier == "thorough" else [])
    descs = dict({k_: v for k_, v in TD_H.items()})
    descs["c12_clear_clone_drop"] = ("owned 12-byte tendril cleared (stays on the heap with length 0), cloned, original dropped, clone pushed and dropped", 900, "q")
    descs["c12_reserve_clone_drop"] = ("with_capacity(16) tendril holding 3 bytes (heap, short), cloned, both dropped", 1200, "q")
    for i, o in enumerate(orders):
        descs[o] = ("three tendrils sharing one 12-byte buffer (owner, clone, offset slice) dropped in order #%d of the 6 possible, survivors read after each drop" % i, 900, "q")
    hs = [H(n, descs[n][1], descs[n][0] + " - under CBMC's pointer checks (invalid/dangling dereference, out-of-bounds, invalid or double free)", "bytes symbolic, sequential, single thread", crate="td") for n in names]
    K.HARNESS_MOD = "ops"
    K.JOBS = min(K.JOBS, 5)                       # the two clone-after-clear/reserve harnesses need ~15-20 GB each
    K.MEM_CAP_KB = max(K.MEM_CAP_KB, 26 * 1024 * 1024)
    K.run_all(out, "td", hs, TD_SRC)
    out.assumptions += ["sequential only: Kani does not model threads, so the Atomic instantiation's acquire/release pairing and cross-thread drops are NOT checked",
                        "leak freedom ('no tendril memory remains') is not checked: CBMC's --memory-leak-check is not usable through Kani 0.68 here; double free, use after free and out-of-bounds are",
                        "bounded histories = the listed recipes; contents symbolic"]
    return out.finish("model_checking", {
        "evaluations": max(1, out.queries), "distinct_nontrivial": max(2, len([u for u in out.units if u["verdict"] == "SUCCESSFUL"])),
        "rule": "as C11; additionally cbmc_checks per unit counts the pointer/bounds/free checks CBMC discharged",
        "functions_encoded": ["Tendril::drop, clone (make_buf_shared + incref), unsafe_subtendril, unsafe_pop_front/back, make_owned, Buf32::{with_capacity,grow,destroy}, into_send/from"]})


# ---------------------------------------------------------------- engine M properties (HTML tokenizer)
# concrete probe appended after the symbolic part: it drives the tokenizer through look-ahead (eat), comment, DOCTYPE, tag,
# attribute and character-reference machinery, so that any stale internal state left behind by the symbolic part becomes observable
PROBE = "\n<!--x--><!DOCTYPE y><z w=v>&amp;&zz;&#65;</z>"

TOK_SRC = ["html5ever/src/tokenizer/mod.rs", "html5ever/src/tokenizer/char_ref/mod.rs", "html5ever/src/tokenizer/states.rs",
           "html5ever/src/tokenizer/interface.rs", "html5ever/src/util/str.rs", "html5ever/src/macros.rs", "web_atoms/build.rs",
           "web_atoms/entities.rs"]
BASE = {"exact_errors": False, "discard_bom": True, "profile": False, "last_start_tag": [97], "on_start": "Continue",
        "foreign": False, "simd": True}
M_ASSUME = [
    "engine M interprets the MIR rustc dumps from /repo's working tree (cargo +nightly rustc -Zunpretty=mir, debug-assertions off, overflow-checks on); functions outside the crate are native models (list: coverage.models_used)",
    "Tendril / BufferQueue are modelled as character lists / a flat stream; C11 and C13 check the real types against exactly these semantics",
    "the SSE2 stride loop is summarised by its contract (first stop byte / LF count); buffers here are shorter than one stride so only the interpreted scalar tail runs",
    "log/trace!/format! are no-ops (message wording is not observed); the sink answers by a fixed policy per run",
    "every symbolic character has a fixed UTF-8 length class per run (class vectors listed in bounds); within its class it is an arbitrary Unicode scalar value",
    "the interpreter is validated on every run: concrete executions of it are compared token-for-token with the natively built tokenizer (coverage.traces_validated_against_impl)",
]


DEEP_STATES = ("Data", "RawData:Rcdata", "RawData:ScriptData", "TagName", "AttributeValue:DoubleQuoted", "AttributeValue:Unquoted", "Comment",
               "DoctypeName", "AfterDoctypeName", "BogusComment", "CdataSection", "MarkupDeclarationOpen", "BeforeAttributeValue", "Plaintext")


def tok_setup(out):
    from lib import tokchecks as TC
    from mirsym import build, tok, models as MD
    from mirsym.program import Program
    mir, ent, dt = build.dump_mir("html5ever")
    prog = Program(mir, C.REPO, "html5ever", MD.M)
    tok.load_entities(prog, ent)
    exe = build.replay_binary("dev")
    exe_rel = build.replay_binary("release")
    out.extra["mir_dump_s"] = round(dt, 1)
    out.extra["mir_lines"] = sum(1 for _ in open(mir, errors="replace"))
    out.extra["source_hash"] = C.src_hash(TOK_SRC)
    out.extra["source_files"] = TOK_SRC
    return TC, tok, prog, mir, ent, exe, exe_rel


def self_validate(out, tok, prog, exe, n, seed):
    """Serval-style guard: run the interpreter concretely and compare with the native build."""
    import random
    rnd = random.Random(1000 + seed)
    states = tok.all_states(prog)
    alpha = "<>/!-=&#;\"' \t\n\r\0aAzZxX09?]\u00e9\ufeff\ufffd\U0001F600"
    words = ["script", "DOCTYPE", "PUBLIC", "SYSTEM", "[CDATA[", "--", "amp;", "amp", "lt", "notin;", "notit;", "#x41;", "#65",
             "#0;", "#x110000;", "#xD800", "#128;", "html", "title", "</", "<!", "]]>", "<a b=c>", "<!--", "-->"]
    bad = []
    for it in range(n):
        st = rnd.choice(states) if rnd.random() < 0.7 else "Data"
        s = ""
        for _ in range(rnd.randint(0, 6)):
            s += rnd.choice(words) if rnd.random() < 0.35 else rnd.choice(alpha)
        chs = [ord(c) for c in s]
        cuts = sorted(rnd.sample(range(len(chs) + 1), min(len(chs) + 1, rnd.randint(0, 3))))
        chunks, prev = [], 0
        for c in cuts + [len(chs)]:
            chunks.append(chs[prev:c])
            prev = c
        on = rnd.choice(["Continue", "Continue", "Plaintext", "Script", ("RawData", "Rcdata"), ("RawData", "ScriptData"), ("RawData", "Rawtext")])
        cfg = tok.Cfg(state=st, exact_errors=rnd.random() < 0.3, discard_bom=rnd.random() < 0.7,
                      last_start_tag=rnd.choice([None, [97], [ord(c) for c in "script"], [ord(c) for c in "title"]]),
                      sink=tok.SinkCfg(on_start=on, foreign=rnd.random() < 0.3), chunks=chunks)
        try:
            r, _, _ = tok.run_one(prog, cfg, [], chs)
            mine = tok.raw_text(r.tokens) + ["feeds " + ",".join(r.feed_results)] if r.outcome == "ok" else ["OUTCOME " + r.outcome]
        except Exception as e:
            mine = ["EXC " + str(e)[:200]]
        nat = tok.native_run(exe, tok.case_text(cfg, chunks))
        if mine != nat:
            bad.append({"state": tok.state_spec(st), "input": s, "chunks": [len(c) for c in chunks], "mine": mine[:6], "native": nat[:6]})
    out.extra["traces_validated_against_impl"] = n
    if bad:
        out.inconclusive.append("encoder self-validation: %d of %d concrete runs of the interpreter differ from the native tokenizer, e.g. %r" % (len(bad), n, bad[0]))
    return not bad


def tok_finish(out, TC, tok, results, exe, exe_rel, prop, keep_err, what, bounds, compare=True):
    npaths = sum(r["paths"] for r in results)
    out.queries += sum(r["queries"] for r in results)
    obl = sum(r["obligations"] for r in results)
    models_used = sorted(set(x for r in results for x in r.get("models_used", [])))
    for r in results:
        for e in r["errors"]:
            out.inconclusive.append("%s: %s" % (r["unit"], e[:300]))
    seen = set()
    nviol = 0
    for r in results:
        for v in (r["violations"] if compare else [x for x in r["violations"] if x.get("label") == "line-oracle"]):
            key = "%s|%s|%s" % (prop, v["label"].split(" ")[0], v["state"])
            if key in seen:
                continue
            seen.add(key)
            if v.get("label") == "xmlnorm":
                cfg = TC.mk_cfg(v["base"])
                chunks = TC.split(v["chars"], v["lens"]) if v.get("lens") else [v["chars"]]
                nat = TC.native_obs(exe, cfg, chunks)
                mid = v["chars"][v["nprefix"]:len(v["chars"]) - v["nsuffix"]]
                exp, i = list(v["resolved"]), 0
                while i < len(mid):
                    c_ = mid[i]
                    if c_ == 13:
                        exp.append(10)
                        if i + 1 < len(mid) and mid[i + 1] == 10:
                            i += 1
                    else:
                        exp.append(0xFFFD if c_ == 0 else c_)
                    i += 1
                exp += [ord(x) for x in v.get("resolved_suffix", "")]
                if v.get("where") == "attr":
                    got = None
                    for l in nat:
                        mm = __import__("re").match(r"XTag \w+ \[[^\]]*\] \[[0-9a-f,:]*=([0-9a-f,]*)", l)
                        if mm:
                            got = [int(x, 16) for x in mm.group(1).split(",") if x]
                else:
                    got = []
                    for l in nat:
                        if l.startswith("Chars "):
                            got += [int(x, 16) for x in l[6:].rpartition(" @")[0].split(",") if x]
                if got != exp:
                    out.violation("XML %s is not the normalised input (CR/CRLF -> LF, NUL -> U+FFFD, nothing else) [input %r, chunks %s]: got %r, expected %r" % (
                        "attribute value" if v.get("where") == "attr" else "character data", chs(v["chars"]), v.get("lens"), chs(got or []), chs(exp)),
                        {"engine": "mirsym", "kind": "xmlnorm", "case": tok.case_text(cfg, chunks), "native": nat, "expected": exp, "where": v.get("where")}, key)
                else:
                    out.inconclusive.append("xmlnorm counter-example %r does not reproduce natively" % (v["chars"],))
                continue
            if v.get("variant") is None:
                # oracle violation on a single configuration (line numbers): replay = show the native tokens
                cfg = TC.mk_cfg(v["base"])
                chunks = TC.split(v["chars"], v["lens"]) if v.get("lens") else [v["chars"]]
                nat = TC.native_obs(exe, cfg, chunks)
                ok = native_line_check(v["chars"], nat)
                if ok:
                    out.inconclusive.append("line-oracle counter-example %r does not reproduce natively (native: %r)" % (v["chars"], nat[:6]))
                    continue
                out.violation("%s [start state %s, input %r, chunks %s] native tokens: %s" % (v["what"], v["state"], chs(v["chars"]), v.get("lens"), nat[:8]),
                              {"engine": "mirsym", "kind": "line-oracle", "case": tok.case_text(cfg, chunks), "chars": v["chars"], "native": nat}, key)
                continue
            rep = TC.replay_diff(v, exe, exe_rel, keep_err)
            if any(x.get("differs") for x in rep.values()):
                out.violation("%s: %s differs from the base run [start state %s, input %r, %s]: base %s | variant %s" % (
                    what, v["label"], v["state"], chs(v["chars"]), "variant input skips %d char(s)" % v["skip"] if v.get("skip") else "same input",
                    rep["dev"]["base"][:6], rep["dev"]["variant"][:6]),
                    {"engine": "mirsym", "kind": "diff", "v": v, "native": rep, "keep_err": keep_err}, key)
            else:
                out.inconclusive.append("counter-example does not reproduce natively (model/encoding problem, not reported): %s %s %r" % (v["label"], v["state"], v["chars"]))
        for pn in r["panics"]:
            key = "%s|panic|%s|%s" % (prop, pn["state"], pn["what"][:40])
            if key in seen:
                continue
            seen.add(key)
            if pn["chars"] is None:
                out.inconclusive.append("panic path without model: %s" % pn["what"])
                continue
            cfg = TC.mk_cfg(pn["cfg"])
            chunks = TC.split(pn["chars"], pn["lens"]) if pn.get("lens") else [pn["chars"]]
            nat = TC.native_obs(exe, cfg, chunks)
            natr = TC.native_obs(exe_rel, cfg, chunks)
            bad = [n for n in (nat, natr) if any(l.startswith("PANIC") or "QUEUE-NOT-EMPTY" in l for l in n) or sum(1 for l in n if l.startswith("EOF")) != 1]
            if bad:
                out.violation("totality: %s [start state %s, input %r, chunks %s] native: %s" % (pn["what"], pn["state"], chs(pn["chars"]), pn.get("lens"), bad[0][-3:]),
                              {"engine": "mirsym", "kind": "panic", "case": tok.case_text(cfg, chunks), "native": nat}, key)
            else:
                out.inconclusive.append("panic/totality path does not reproduce natively: %s %s %r" % (pn["what"], pn["state"], pn["chars"]))
    out.extra["slowest_units"] = [(r["unit"], round(r["wall"], 1)) for r in sorted(results, key=lambda r: -r["wall"])[:8]]
    out.units.append({"engine": "mirsym (MIR symbolic executor) + z3 " + __import__("z3").get_version_string(), "what": what, "bounds": bounds,
                      "work_units": len(results), "paths_explored": npaths, "obligations": obl,
                      "unit_wall_s_total": round(sum(r["wall"] for r in results), 1)})
    out.extra["models_used"] = models_used
    out.assumptions += M_ASSUME
    return npaths, obl


def chs(cc):
    return "".join(chr(c) if 32 <= c < 127 else "\\u{%x}" % c for c in cc)


def native_line_check(chars, nat):
    """True iff the native EOF line equals 1 + line breaks (used to confirm line-oracle counter-examples at EOF level);
    per-token positions are not observable natively, so a token-level alarm is confirmed by comparing with a
    single-character-per-feed run in which every token is emitted before any further input exists"""
    n = 0
    for i, c in enumerate(chars):
        if c == 13 or (c == 10 and not (i > 0 and chars[i - 1] == 13)):
            n += 1
    eof = [l for l in nat if l.startswith("EOF")]
    return bool(eof) and eof[-1].endswith("@%d" % (n + 1))


def tok_units(TC, tok, prog, k, classes_list, variants, bases, **kw):
    units = []
    for st in tok.all_states(prog):
        for cls in classes_list:
            for base in bases:
                u = {"kind": kw.get("kind", "tok"), "state": st, "k": k, "classes": cls, "base": base, "variants": variants(k, cls)}
                u.update({x: y for x, y in kw.items() if x != "kind"})
                units.append(u)
    rnd = __import__("random").Random(C.seed())
    rnd.shuffle(units)     # the seed only changes scheduling
    return units


def chunk_variants(TC):
    def f(k, cls):
        vs = [("chunks%s" % c, {}, c) for c in TC.compositions(k) if len(c) > 1]
        vs += [("chunks[0,%d]" % k, {}, [0, k]), ("chunks[1,0,%d]" % (k - 1), {}, [1, 0, k - 1])]
        return vs
    return f


def finish_mc(out, npaths, obl, nstates, what_samples):
    return out.finish("model_checking", {
        "states": max(1, nstates), "transitions": max(1, npaths),
        "traces_validated_against_impl": out.extra.get("traces_validated_against_impl", 0),
        "evaluations": max(1, out.queries), "distinct_nontrivial": max(2, npaths),
        "rule": "states = tokenizer start states walked concretely; transitions = distinct feasible paths of the interpreted MIR (each has its own path condition over the symbolic characters); evaluations = z3 queries; obligations = per-path-pair equalities / oracles discharged",
        "obligations": obl, "samples": what_samples,
        "functions_encoded": "Tokenizer::{new,feed,run,step,step_char_ref_tokenizer,process_char_ref,end,eof_step,get_char,get_preprocessed_char,pop_except_from,eat,peek,discard_char,emit_*,create_tag,discard_tag,create_attribute,finish_attribute,have_appropriate_end_tag,doctype_id,clear_doctype_id,bad_char_error,bad_eof_error,data_state_simd_fast_path,process_token*}, char_ref::CharRefTokenizer::*, util::str::lower_ascii_letter, option_push (all interpreted from MIR)",
    })


def c03(out, tier):
    TC, tok, prog, mir, ent, exe, exe_rel = tok_setup(out)
    if not self_validate(out, tok, prog, exe, 300 if tier == "quick" else 1500, C.seed()):
        return finish_mc(out, 0, 0, 0, ["self-validation failed"])
    k = 2 if tier == "quick" else 3
    classes = [[1] * k, [1, 3] + [1] * (k - 2)] + ([[3] + [1] * (k - 1), [1, 2, 4][:k]] if tier == "thorough" else [])
    bases = [BASE, dict(BASE, exact_errors=True), dict(BASE, on_start="Script"), dict(BASE, on_start=("RawData", "Rcdata"))]
    units = tok_units(TC, tok, prog, k, classes, chunk_variants(TC), bases, kind="C03", keep_errors=True, line_oracle=False)
    # one more symbolic character from representative states (the pending-CR / look-ahead / char-ref machinery needs 3)
    # ('&' is excluded there: three symbolic characters after it fan out over the whole entity table; character references
    # under chunking are covered by the concrete-prefix scenarios below)
    deep = [u for u in tok_units(TC, tok, prog, k + 1, [[1] * (k + 1)], chunk_variants(TC), [BASE], kind="C03", keep_errors=True, line_oracle=False, exclude="&")
            if tok.state_spec(TC._tup(u["state"])) in DEEP_STATES]
    # and every state again with the concrete probe suffix (fed as a separate last chunk in the chunked runs)
    probe = tok_units(TC, tok, prog, k, [[1] * k], chunk_variants(TC), [BASE], kind="C03", keep_errors=True, line_oracle=False, suffix=[ord(c) for c in PROBE],
                      exclude="&")
    # concrete prefixes that park the tokenizer inside a look-ahead / character reference / pending CR, then symbolic characters,
    # cut at every position (also inside the prefix)
    scen = []
    for (st, pre) in (("Data", "&#"), ("Data", "&#x"), ("Data", "&am"), ("Data", "&no"), ("Data", "<!-"), ("Data", "<!DOCTYP"), ("Data", "<![CDAT"),
                      ("Data", "</"), ("Data", "<a b="), ("Data", "\r"), ("Data", "x\r"), (("RawData", "Rcdata"), "</a"), (("RawData", "ScriptData"), "<!-"),
                      (("AttributeValue", "DoubleQuoted"), "&#x"), (("AttributeValue", "Unquoted"), "&am"), ("AfterDoctypeName", "PUBLI"),
                      ("Data", "<!doctype a publi")):
        n = len(pre) + 2
        pv = [("chunks%s" % c, {}, c) for c in TC.splits(n)]
        for b in (BASE, dict(BASE, exact_errors=True)):
            scen.append({"kind": "C03", "state": st, "k": 2, "classes": [1, 1], "base": b, "variants": pv, "keep_errors": True, "line_oracle": False,
                         "prefix": [ord(c) for c in pre]})
    units = scen + deep + units + probe        # longest-running units first (pool scheduling only)
    res = TC.run_units(units, mir, ent)
    bounds = "all %d start states x %d symbolic characters (UTF-8 class vectors %s) x every split into non-empty chunks plus empty chunks at the front and in the middle x {default, exact_errors, sink answers Script, sink answers RawData(Rcdata)}; then EOF" % (
        len(tok.all_states(prog)), k, classes)
    npaths, obl = tok_finish(out, TC, tok, res, exe, exe_rel, "C03", True, "chunked run vs one-piece run (tokens, parse errors, per-token line numbers)", bounds)
    out.assumptions += ["outside the bound: inputs longer than %d characters after the start state; text injected at script suspension; the tree half (follows from token-stream equality, TreeBuilder sees only (token, line) pairs)" % k]
    return finish_mc(out, npaths, obl, len(tok.all_states(prog)), [{"bounds": bounds}])


def c04(out, tier):
    TC, tok, prog, mir, ent, exe, exe_rel = tok_setup(out)
    if not self_validate(out, tok, prog, exe, 300 if tier == "quick" else 1500, C.seed() + 1):
        return finish_mc(out, 0, 0, 0, ["self-validation failed"])
    k = 2 if tier == "quick" else 3
    classes = [[1] * k] + ([[3] + [1] * (k - 1)] if tier == "thorough" else [])
    bases = [dict(BASE, on_start=o, exact_errors=e)
             for o in ("Continue", "Plaintext", "Script", ("RawData", "Rcdata"), ("RawData", "Rawtext"), ("RawData", "ScriptData"))
             for e in (False, True)]
    bases += [dict(BASE, foreign=True, last_start_tag=None, exact_errors=e) for e in (False, True)]
    def vs(k_, cls):
        return [("chunks%s" % c, {}, c) for c in TC.compositions(k_) if len(c) == k_] + [("simd-off", {"simd": False}, None)]
    units = tok_units(TC, tok, prog, k, classes, vs, bases, kind="C04", compare=False, line_oracle=False)
    # every state again with the probe suffix, and concrete prefixes that park the tokenizer inside character references,
    # look-ahead and attribute machinery
    units += tok_units(TC, tok, prog, k, [[1] * k], vs, [BASE] + ([dict(BASE, exact_errors=True)] if tier == "thorough" else []), kind="C04", compare=False, line_oracle=False,
                       suffix=[ord(c) for c in PROBE])
    for (st, pre) in (("Data", "&zz"), ("Data", "&#"), ("Data", "&#x"), ("Data", "&am"), ("Data", "&notit"), ("Data", "<!-"), ("Data", "</a"), ("Data", "<a b="),
                      ("Data", "<!DOCTYPE a PUBLI"), ("Data", "<![CDAT"), (("AttributeValue", "DoubleQuoted"), "&zz"), (("RawData", "Rcdata"), "&zz"),
                      (("RawData", "ScriptData"), "<!--<scrip")):
        for e in (False, True):
            n = len(pre) + 2
            units.append({"kind": "C04", "state": st, "k": 2, "classes": [1, 1], "base": dict(BASE, exact_errors=e, foreign=(pre == "<![CDAT")),
                          "variants": [("chunks%s" % ([1] * n), {}, [1] * n)], "compare": False, "line_oracle": False, "prefix": [ord(c) for c in pre]})
    res = TC.run_units(units, mir, ent)
    bounds = "HTML tokenizer: all %d start states x %d symbolic characters x {whole, one character per feed, SIMD off} x 6 sink answers x exact_errors, plus (foreign content, no last start tag); then end()" % (len(tok.all_states(prog)), k)
    # the XML tokenizer, same obligations
    from mirsym import build as _b, models as _MD
    from mirsym.program import Program as _P
    xmir, xent, _ = _b.dump_mir("xml5ever")
    xprog = _P(xmir, C.REPO, "xml5ever", _MD.M)
    xunits = []
    for st in tok.all_xml_states(xprog):
        for e in (False, True):
            xunits.append({"kind": "C04x", "state": st, "k": k, "classes": [1] * k, "base": dict(XBASE, exact_errors=e),
                           "variants": [("chunks%s" % ([1] * k), {}, [1] * k)], "compare": False, "line_oracle": False})
    xres = TC.run_units(xunits, xmir, xent, crate="xml5ever")
    bounds += "; XML tokenizer: all %d start states x %d symbolic characters x {whole, one character per feed} x exact_errors" % (len(tok.all_xml_states(xprog)), k)
    npaths, obl = tok_finish(out, TC, tok, res + xres, exe, exe_rel, "C04", True, "no panic / unreachable / failed assert / overflow / RefCell double borrow on any path; feed returns Done only with the queue empty; exactly one EOF, last; bounded step count (livelock guard)", bounds, compare=False)
    # the HTML parser (tokenizer + tree builder composed, documents and fragments): no panic on any path
    from lib import treechecks as TR
    if tree_self_validate(out, TC, mir, ent, exe, 40 if tier == "quick" else 400, C.seed() + 11):
        tunits = tree_units("C04", tier)
        tres = TC.run_units_fn(TR.unit_tree, tunits, mir, ent)
        tree_finish(out, TR, "C04", tres, exe, exe_rel)
        tp = sum(r["paths"] for r in tres)
        npaths += tp
        out.units.append({"engine": "mirsym + z3", "what": "HTML parser totality: Tokenizer composed with TreeBuilder (interpreted MIR) over the model DOM sink; no panic / failed assert / RefCell double borrow / unreachable on any path",
                          "bounds": "%d document / fragment templates with 1-2-letter symbolic tag names and symbolic characters" % len(tunits), "work_units": len(tres), "paths_explored": tp,
                          "path_budget_hit": [r["name"] for r in tres if r["budget_hit"]]})
        bounds += "; HTML parser: %d templates (contexts x symbolic tags), %d paths" % (len(tunits), tp)
    out.assumptions += ["claimed for the HTML and XML tokenizers (incl. character-reference sub-tokenizers) and, on a bounded template list, the HTML parser with its tree builder; the XML tree builder's panics are reported by C16; "
                        "RcDom, stack depth and memory exhaustion are outside this check (see level_note)"]
    return finish_mc(out, npaths, npaths, len(tok.all_states(prog)), [{"bounds": bounds}])


def c08(out, tier):
    TC, tok, prog, mir, ent, exe, exe_rel = tok_setup(out)
    if not self_validate(out, tok, prog, exe, 300 if tier == "quick" else 1500, C.seed() + 2):
        return finish_mc(out, 0, 0, 0, ["self-validation failed"])
    k = 2 if tier == "quick" else 3
    classes = [[1] * k, [2] + [1] * (k - 1)] + ([[1, 3, 1][:k], [4] + [1] * (k - 1)] if tier == "thorough" else [])
    def vs(k_, cls):
        return [("exact_errors", {"exact_errors": True}, None), ("simd-off", {"simd": False}, None), ("profile", {"profile": True}, None),
                ("exact_errors+chunks", {"exact_errors": True}, [1] * k_)]
    bases = [BASE, dict(BASE, on_start=("RawData", "ScriptData"))]
    units = tok_units(TC, tok, prog, k, classes, vs, bases, kind="C08", keep_errors=False, line_oracle=False)
    # discard_bom: no effect unless the very first character is U+FEFF; if it is, equal to the run without it
    def vb(k_, cls):
        return [("discard_bom-off", {"discard_bom": False}, None)]
    def vb2(k_, cls):
        return [("discard_bom-drops-only-first", {"discard_bom": False}, None, {"skip": 1})]
    cls3 = [[3] + [1] * (k - 1)]
    units += tok_units(TC, tok, prog, k, [[1] * k] + cls3, vb, [BASE], kind="C08bom", keep_errors=True, forbid_first=0xFEFF)
    units += tok_units(TC, tok, prog, k, cls3, vb2, [BASE], kind="C08bom1", keep_errors=True, force=[(0, 0xFEFF)])
    # "under the same feed schedule": the same comparison with both runs chunked alike, one more character, representative states
    deep = []
    for st in tok.all_states(prog):
        if tok.state_spec(st) not in DEEP_STATES:
            continue
        for comp in TC.compositions(k + 1):
            if len(comp) == 1:
                continue
            deep.append({"kind": "C08", "state": st, "k": k + 1, "classes": [1] * (k + 1), "base": BASE, "base_lens": comp, "exclude": "&",
                         "variants": [("exact_errors same chunks%s" % comp, {"exact_errors": True}, comp), ("simd-off same chunks%s" % comp, {"simd": False}, comp)],
                         "keep_errors": False, "line_oracle": False})
    units = deep + units
    res = TC.run_units(units, mir, ent)
    bounds = "all %d start states x %d symbolic characters (class vectors %s): exact_errors on/off, SIMD path on/off, profile on/off (clock stub), exact_errors under one-character feeds; 14 representative states with one more character and both runs chunked alike (every chunking); discard_bom on/off with first character != U+FEFF, and == U+FEFF against the input without it" % (len(tok.all_states(prog)), k, classes)
    npaths, obl = tok_finish(out, TC, tok, res, exe, exe_rel, "C08", False, "option variant vs default (tokens minus ParseError, line numbers)", bounds)
    # the tree builder's options over the composed parser: exact_errors and drop_doctype
    from lib import treechecks as TR
    if tree_self_validate(out, TC, mir, ent, exe, 40 if tier == "quick" else 400, C.seed() + 12):
        tunits = tree_units("C08", tier)
        tres = TC.run_units_fn(TR.unit_tree_diff, tunits, mir, ent)
        tree_finish(out, TR, "C08", tres, exe, exe_rel)
        tp = sum(r["paths"] for r in tres)
        npaths += tp
        obl += sum(r["obligations"] for r in tres)
        out.units.append({"engine": "mirsym + z3", "what": "TreeBuilderOpts::{exact_errors, drop_doctype} flipped on the composed HTML parser (interpreted MIR): every sink call except parse errors "
                          "(and the doctype itself for drop_doctype), the quirks mode and the feed results are equal, per pair of paths", "bounds": "%d templates (doctypes with symbolic names / identifiers incl. the quirks-mode tables; contexts x symbolic tags)" % len(tunits),
                          "work_units": len(tres), "paths_explored": tp})
        bounds += "; tree builder options on %d document templates" % len(tunits)
    out.assumptions += ["the XML tokenizer's and XML tree builder's options are not covered by this check (C15 covers XML exact_errors)",
                        "profile: Instant/Duration are stubbed (every duration 0 ns), so only control flow through the profiling run loop is compared",
                        "the >=16-byte SSE2 stride loop itself is outside engine M's bound (summarised by contract)"]
    return finish_mc(out, npaths, obl, len(tok.all_states(prog)), [{"bounds": bounds}])


def c09(out, tier):
    TC, tok, prog, mir, ent, exe, exe_rel = tok_setup(out)
    if not self_validate(out, tok, prog, exe, 300 if tier == "quick" else 1500, C.seed() + 3):
        return finish_mc(out, 0, 0, 0, ["self-validation failed"])
    k = 2 if tier == "quick" else 3
    classes = [[1] * k]
    def vs(k_, cls):
        return [("chunks%s" % ([1] * k_), {}, [1] * k_), ("exact_errors", {"exact_errors": True}, None)]
    bases = [BASE, dict(BASE, on_start=("RawData", "Rawtext"))]
    units = tok_units(TC, tok, prog, k, classes, vs, bases, kind="C09", keep_errors=False, line_oracle=True)
    def vs3(k_, cls):
        return [("chunks%s" % c, {}, c) for c in TC.compositions(k_) if len(c) > 1]
    units += [u for u in tok_units(TC, tok, prog, k + 1, [[1] * (k + 1)], vs3, [BASE], kind="C09", keep_errors=False, line_oracle=True, exclude="&")
              if tok.state_spec(TC._tup(u["state"])) in DEEP_STATES]
    res = TC.run_units(units, mir, ent)
    bounds = "all %d start states x %d symbolic ASCII characters (CR, LF and CRLF arise as values of the symbolic characters) x {whole, one character per feed, exact_errors}: for every emitted token, line == 1 + #line breaks in the characters the input queue had handed out at emission" % (len(tok.all_states(prog)), k)
    npaths, obl = tok_finish(out, TC, tok, res, exe, exe_rel, "C09", False, "per-token line-number oracle", bounds)
    out.assumptions += ["'consumed' = characters popped from the BufferQueue model (characters parked by look-ahead and pushed back count as unread)",
                        "SIMD newline popcount for buffers >= 16 bytes: by contract only"]
    return finish_mc(out, npaths, obl, len(tok.all_states(prog)), [{"bounds": bounds}])


def c01(out, tier):
    TC, tok, prog, mir, ent, exe, exe_rel = tok_setup(out)
    if not self_validate(out, tok, prog, exe, 300 if tier == "quick" else 1500, C.seed() + 4):
        return finish_mc(out, 0, 0, 0, ["self-validation failed"])
    k = 2 if tier == "quick" else 3
    classes = [[1] * k] + ([[2] + [1] * (k - 1), [1, 3, 1][:k], [1, 1, 4][:k]] if tier == "thorough" else [[1, 3][:k]])
    states = tok.all_states(prog)
    units = []
    onstarts = ["Continue", "Plaintext", "Script", ("RawData", "Rcdata"), ("RawData", "Rawtext"), ("RawData", "ScriptData")]
    for st in states:
        for cls in classes:
            for base in ([dict(BASE, discard_bom=False)] + [dict(BASE, discard_bom=False, on_start=o) for o in onstarts[1:]]
                         + [dict(BASE, discard_bom=False, foreign=True, last_start_tag=None)]):
                # sink-directed switches only matter from states that can complete a start tag within k characters
                if base["on_start"] != "Continue" and not tag_can_complete(st):
                    continue
                if base["foreign"] and tok.state_spec(st) not in ("MarkupDeclarationOpen", "TagOpen", "Data"):
                    continue
                units.append({"state": st, "k": k, "classes": cls, "base": base})
                if base["on_start"] in ("Continue", ("RawData", "Rcdata")) and cls == classes[0]:
                    units.append({"state": st, "k": k, "classes": cls, "base": base, "suffix": [ord(c) for c in PROBE]})
    # look-ahead keywords need longer inputs: concrete keyword prefix + symbolic tail
    for (st, pre) in (("MarkupDeclarationOpen", "DOCTYP"), ("MarkupDeclarationOpen", "[CDATA"), ("MarkupDeclarationOpen", "-"),
                      ("AfterDoctypeName", "PUBLI"), ("AfterDoctypeName", "SYSTE"), ("AfterDoctypeName", "pUbLiC"),
                      (("ScriptDataEscapeStart", "DoubleEscaped"), "script"), (("ScriptDataEscapeStart", "DoubleEscaped"), "scrip"),
                      ("ScriptDataDoubleEscapeEnd", "script"), ("Data", "<!--"), ("Data", "<a b="), ("Data", "</a"), ("Data", "&am"), ("Data", "&#x1"),
                      (("RawData", "Rcdata"), "</a"), (("RawData", "ScriptData"), "<!--"), (("AttributeValue", "DoubleQuoted"), "&amp"),
                      (("AttributeValue", "Unquoted"), "&not")):
        for fg in (False, True):
            if fg and pre != "[CDATA":
                continue
            units.append({"state": st, "k": k, "classes": [1] * k, "base": dict(BASE, discard_bom=False, foreign=fg), "prefix": [ord(c) for c in pre]})
    # tags are dropped at EOF, so attribute/tag machinery is also exercised with a concrete suffix that completes the tag
    for (st, pre, suf) in (("BeforeAttributeName", 'n="', '">'), ("BeforeAttributeName", "n='", "'>"), ("BeforeAttributeName", "n=", " >"),
                           ("AttributeName", "n", '="v">'), ("AfterAttributeName", "", '="v" x>'), ("TagName", "b", " c=d>"),
                           ("BeforeAttributeName", 'n="&amp', '">'), ("BeforeAttributeName", "n=&not", " >"), ("BeforeAttributeName", "n='&#x4", "'>"),
                           ("BeforeAttributeName", 'a=1 ', '=2 a=3>'), ("Data", "<", " x=y>z"), ("Data", "</", " x=y>z"),
                           (("RawData", "Rcdata"), "</", ">z"), (("RawData", "ScriptData"), "<!--<", ">-->"), ("SelfClosingStartTag", "", ">x"),
                           (("RawData", "Rcdata"), "</a", PROBE), (("RawData", "Rawtext"), "x</a", ">" + PROBE), (("RawData", "ScriptData"), "</a", PROBE),
                           ("AfterAttributeValueQuoted", "", "n=v>")):
        for cls in classes:
            units.append({"state": st, "k": k, "classes": cls, "base": dict(BASE, discard_bom=False), "prefix": [ord(c) for c in pre], "suffix": [ord(c) for c in suf]})
    rnd = __import__("random").Random(C.seed())
    rnd.shuffle(units)
    res = TC.run_units_fn(TC.unit_c01, units, mir, ent)
    bounds = ("all %d start states x %d symbolic characters (UTF-8 class vectors %s), last start tag 'a' (a symbolic end-tag name may or may not equal it) and none, "
              "sink answers {Continue, Plaintext, Script, RawData(Rcdata|Rawtext|ScriptData)}, CDATA allowed or not, plus %d scenarios (concrete prefix + %d symbolic characters + concrete suffix that completes the pending tag); then EOF") % (
        len(states), k, classes, 35, k)
    out.extra["ref_paths"] = sum(r.get("ref_paths", 0) for r in res)
    npaths, obl = tok_finish_c01(out, TC, tok, prog, res, exe, exe_rel, bounds)
    out.assumptions += ["oracle: /verif/spec/html_tokenizer_ref.py, a transcription of WHATWG HTML 13.2.5 with the start-state conventions stated in its header; run over the same symbolic characters after CR/CRLF normalisation",
                        "named references: the reference uses the names with a non-(0,0) value of the table generated from the current tree; C14 checks that table against the pinned snapshot",
                        "outside the bound: inputs longer than the prefix + k characters"]
    return finish_mc(out, npaths, obl, len(states), [{"bounds": bounds}])


def c14(out, tier):
    TC, tok, prog, mir, ent, exe, exe_rel = tok_setup(out)
    if not self_validate(out, tok, prog, exe, 300 if tier == "quick" else 1500, C.seed() + 5):
        return finish_mc(out, 0, 0, 0, ["self-validation failed"])
    # precondition: generated table == pinned snapshot + every proper prefix mapped to (0,0) (+ the empty key)
    snap = {k_: tuple(v) for k_, v in json.load(open(os.path.join(C.VERIF, "spec", "entities_snapshot.json"))).items()}
    want = dict(snap)
    for k_ in snap:
        for n in range(1, len(k_)):
            want.setdefault(k_[:n], (0, 0))
    want[""] = (0, 0)
    gen = dict(prog.entities)
    if gen != want:
        diff = [k_ for k_ in set(gen) | set(want) if gen.get(k_) != want.get(k_)]
        ex = sorted(diff)[0]
        out.violation("generated NAMED_ENTITIES differs from the WHATWG table snapshot in %d keys, e.g. %r: generated %r, expected %r" % (
            len(diff), ex, gen.get(ex), want.get(ex)), {"engine": "table", "key": ex, "generated": gen.get(ex), "expected": want.get(ex)},
            "C14|table|%s" % ex)
    out.extra["table_keys_compared"] = len(want)
    # contexts: (start state, text before the reference, text after the symbolic part).  Attribute contexts start before an
    # attribute name and end with the closing quote and '>' so that the value is observable in the emitted tag.
    ctxs = [("Data", "", ""), (("RawData", "Rcdata"), "", ""), ("BeforeAttributeName", 'n="', '">'), ("BeforeAttributeName", "n='", "'>"),
            ("BeforeAttributeName", "n=", " >")]
    base = dict(BASE, discard_bom=False)
    units = []
    # numeric references
    kq = 2 if tier == "quick" else 3
    for (st, cpre, csuf) in ctxs:
        for pre in ("&#", "&#x", "&#X"):
            units.append({"state": st, "k": kq, "classes": [1] * kq, "base": base, "prefix": [ord(c) for c in cpre + pre], "suffix": [ord(c) for c in csuf], "entities": snap_ents(snap)})
        # longer digit strings: fully symbolic hex digits (shifts are cheap for the solver) ...
        hexfam = [("&#x", (48, 57), 5), ("&#x", (97, 102), 9), ("&#X", (65, 70), 9)] + ([("&#x", (48, 57), 6), ("&#x", (48, 57), 9)] if tier == "thorough" else [])
        for pre, rng, d in hexfam:
            if tier == "quick" and cpre not in ("", 'n="'):
                continue
            units.append({"state": st, "k": d + 1, "classes": [1] * (d + 1), "base": base, "prefix": [ord(c) for c in cpre + pre], "suffix": [ord(c) for c in csuf],
                          "char_ranges": [rng] * d + [(None, None)], "entities": snap_ents(snap)})
        # ... and decimal strings as concrete leading digits + symbolic trailing digits around every boundary the
        # algorithm distinguishes (multiplying a fully symbolic 32-bit value by 10 eleven times is out of z3's reach)
        decfam = [("&#", 3), ("&#1114", 3), ("&#55", 3), ("&#57", 3), ("&#6553", 1), ("&#42949672", 2), ("&#42949673", 2), ("&#429496", 4),
                  ("&#99999999", 2)] + ([("&#", 4), ("&#1", 4), ("&#11141", 3), ("&#4294967", 3)] if tier == "thorough" else [])
        for pre, d in decfam:
            if tier == "quick" and cpre not in ("", 'n="'):
                continue
            units.append({"state": st, "k": d + 1, "classes": [1] * (d + 1), "base": base, "prefix": [ord(c) for c in cpre + pre], "suffix": [ord(c) for c in csuf],
                          "char_ranges": [(48, 57)] * d + [(None, None)], "entities": snap_ents(snap)})
    # named references
    names = sorted(snap)
    legacy = [n for n in names if not n.endswith(";")]
    prefixy = [n for n in names if any(o != n and o.startswith(n) for o in names)]
    rnd = __import__("random").Random(C.seed())
    if tier == "quick":
        sel = set(legacy) | set(prefixy) | set(rnd.sample(names, len(names) // 20))
        sel = sorted(sel)
        rnd.shuffle(sel)
        sel = sel[:200]
    else:
        sel = names
    kf = 1 if tier == "quick" else 2
    for n in sel:
        forms = {n, n[:-1]}
        for f in sorted(forms):
            for (st, cpre, csuf) in ctxs:
                units.append({"state": st, "k": kf, "classes": [1] * kf, "base": base, "prefix": [ord(c) for c in cpre] + [38] + [ord(c) for c in f],
                              "suffix": [ord(c) for c in csuf], "entities": snap_ents(snap)})
    out.extra["names_checked"] = len(sel)
    rnd.shuffle(units)
    res = TC.run_units_fn(TC.unit_c01, units, mir, ent)
    bounds = ("numeric: '&#', '&#x', '&#X' + %d unconstrained symbolic characters; 5..9 fully symbolic hex digits per digit class + symbolic follower; decimal strings = concrete leading digits + 1..4 symbolic digits around 0x80..0x9F, 0xD800, 0xFFFF, 0x10FFFF, 2^32 (wrap-around of the accumulator) + symbolic follower; 5 contexts (quick: 2 for the long strings); "
              "named: %d of 2231 table names (quick: all 106 legacy names, every name that is a prefix of another, seeded sample) in the forms {exact, minus last character} + %d symbolic follower character(s), in 5 contexts; "
              "generated table vs pinned snapshot: %d keys") % (kq, len(sel), kf, len(want))
    out.extra["ref_paths"] = sum(r.get("ref_paths", 0) for r in res)
    npaths, obl = tok_finish_c01(out, TC, tok, prog, res, exe, exe_rel, bounds)
    out.assumptions += ["trusted base: /verif/spec/entities_snapshot.json (the table of the pinned commit; no network copy of entities.json is available in the sandbox)",
                        "the reference uses the snapshot, not the generated table", "xml5ever's character references are checked by C15 (differentially), not against this oracle"]
    return finish_mc(out, npaths, obl, len(ctxs), [{"bounds": bounds}])


XML_SRC = ["xml5ever/src/tokenizer/mod.rs", "xml5ever/src/tokenizer/char_ref/mod.rs", "xml5ever/src/tokenizer/states.rs",
           "xml5ever/src/tokenizer/interface.rs", "xml5ever/src/tokenizer/qname.rs"]
XBASE = {"exact_errors": False, "discard_bom": True, "profile": False, "last_start_tag": None, "on_start": "Continue",
         "foreign": False, "simd": True, "dialect": "xml"}


def xml_setup(out):
    from lib import tokchecks as TC
    from mirsym import build, tok, models as MD
    from mirsym.program import Program
    mir, ent, dt = build.dump_mir("xml5ever")
    prog = Program(mir, C.REPO, "xml5ever", MD.M)
    tok.load_entities(prog, ent)
    exe = build.replay_binary("dev")
    exe_rel = build.replay_binary("release")
    out.extra["mir_dump_s"] = round(dt, 1)
    out.extra["source_hash"] = C.src_hash(XML_SRC)
    out.extra["source_files"] = XML_SRC
    return TC, tok, prog, mir, ent, exe, exe_rel


def xml_self_validate(out, tok, prog, exe, n, seed):
    import random
    rnd = random.Random(2000 + seed)
    states = tok.all_xml_states(prog)
    alpha = "<>/!-=&#;\"' \t\n\r\0aAzZxX09?]:\u00e9\ufeff\ufffd"
    words = ["DOCTYPE", "PUBLIC", "SYSTEM", "[CDATA[", "--", "amp;", "lt;", "#x41;", "#65;", "a:b", "xmlns:p", "<?", "?>", "</", "<!", "]]>",
             "<a b='c'>", "<!--", "-->", "/>"]
    bad = []
    for it in range(n):
        st = rnd.choice(states) if rnd.random() < 0.7 else "Data"
        s = ""
        for _ in range(rnd.randint(0, 6)):
            s += rnd.choice(words) if rnd.random() < 0.35 else rnd.choice(alpha)
        chs_ = [ord(c) for c in s]
        cuts = sorted(rnd.sample(range(len(chs_) + 1), min(len(chs_) + 1, rnd.randint(0, 3))))
        chunks, prev = [], 0
        for c in cuts + [len(chs_)]:
            chunks.append(chs_[prev:c])
            prev = c
        cfg = tok.Cfg(state=st, exact_errors=rnd.random() < 0.3, discard_bom=rnd.random() < 0.7, chunks=chunks, dialect="xml")
        try:
            r, _, _ = tok.run_one(prog, cfg, [], chs_)
            mine = tok.raw_text(r.tokens) + ["feeds " + ",".join(r.feed_results)] if r.outcome == "ok" else ["OUTCOME " + r.outcome]
        except Exception as e:
            mine = ["EXC " + str(e)[:200]]
        nat = tok.native_run(exe, tok.case_text(cfg, chunks))
        if mine != nat:
            bad.append({"state": tok.state_spec(st), "input": s, "chunks": [len(c) for c in chunks], "mine": mine[:6], "native": nat[:6]})
    out.extra["traces_validated_against_impl"] = n
    if bad:
        out.inconclusive.append("encoder self-validation (xml): %d of %d concrete runs differ from the native tokenizer, e.g. %r" % (len(bad), n, bad[0]))
    return not bad


def c15(out, tier):
    TC, tok, prog, mir, ent, exe, exe_rel = xml_setup(out)
    if not xml_self_validate(out, tok, prog, exe, 300 if tier == "quick" else 1500, C.seed()):
        return finish_mc(out, 0, 0, 0, ["self-validation failed"])
    k = 2 if tier == "quick" else 3
    states = tok.all_xml_states(prog)
    classes = [[1] * k, [1, 3, 1, 1][:k]] + ([[3] + [1] * (k - 1), [2, 1, 4, 1][:k]] if tier == "thorough" else [])
    XDEEP = ("Data", "TagName", "TagAttrValue:DoubleQuoted", "TagAttrValue:Unquoted", "Comment", "Cdata", "PiData", "DoctypeName", "EndTagName")
    def vs(k_, cls):
        v = [("chunks%s" % c, {}, c) for c in TC.compositions(k_) if len(c) > 1]
        v += [("chunks[0,%d]" % k_, {}, [0, k_]), ("exact_errors", {"exact_errors": True}, None), ("exact_errors+chunks", {"exact_errors": True}, [1] * k_)]
        return v
    units = []
    for st in states:
        for cls in classes:
            units.append({"kind": "C15", "state": st, "k": k, "classes": cls, "base": XBASE, "variants": vs(k, cls), "keep_errors": False, "line_oracle": False})
        if tok.state_spec(st) in XDEEP:
            units.append({"kind": "C15", "state": st, "k": k + 1, "classes": [1] * (k + 1), "base": XBASE, "variants": vs(k + 1, None), "keep_errors": False,
                          "line_oracle": False, "exclude": "&"})
    # character references next to line breaks / NUL: concrete reference + symbolic neighbours
    for (st, pre) in (("Data", "&#x41;"), ("Data", "&amp"), ("Data", "&#"), (("TagAttrValue", "DoubleQuoted"), "&lt;"), (("TagAttrValue", "Unquoted"), "&#65"), ("Data", "&x")):
        n = len(pre) + 2
        pv = [("chunks%s" % c, {}, c) for c in TC.splits(n)] + [("exact_errors", {"exact_errors": True}, None)]
        units.append({"kind": "C15", "state": st, "k": 2, "classes": [1, 1], "base": XBASE, "variants": pv, "keep_errors": False,
                      "line_oracle": False, "prefix": [ord(c) for c in pre]})
    # discard_bom: only the first character of the stream
    cls3 = [[3] + [1] * (k - 1)]
    for st in states:
        units.append({"kind": "C15bom", "state": st, "k": k, "classes": cls3[0], "base": XBASE, "variants": [("discard_bom-off", {"discard_bom": False}, None)],
                      "keep_errors": False, "forbid_first": 0xFEFF})
        units.append({"kind": "C15bom1", "state": st, "k": k, "classes": cls3[0], "base": XBASE,
                      "variants": [("discard_bom-drops-only-first", {"discard_bom": False}, None, {"skip": 1})], "keep_errors": False, "force": [(0, 0xFEFF)]})
    # absolute oracle: character data / attribute values are exactly the normalised input
    nunits = []
    kn = 2 if tier == "quick" else 3
    for pre, resv in (("", []), ("&amp;", [38]), ("&z", [38, 122]), ("&#65;", [65]), ("x", [120]), ("&lt", [60]), ("&#x41", [65])):
        nb = dict(XBASE, state="Data", discard_bom=False)
        ex = "<&" + (";" if pre in ("&z", "&lt", "&#x41") else "") + ("0123456789abcdefABCDEF" if pre == "&#x41" else "")
        n_ = len(pre) + kn
        nunits.append({"prefix": pre, "resolved": resv, "k": kn, "classes": [1] * kn, "base": nb, "exclude": ex, "chunkings": [[1] * n_, [n_ - 1, 1]]})
        for q in ('"', "'"):
            if pre in ("&lt", "&#x41"):
                continue      # without ';' the attribute-value exception (as in HTML) may leave the text undecoded
            nunits.append({"prefix": "<a b=" + q + pre, "resolved": resv, "k": kn, "classes": [1] * kn, "base": nb, "exclude": ex + q, "suffix": q + ">",
                           "where": "attr", "chunkings": [[1] * (n_ + 9)]})
    nres = TC.run_units_fn(TC.unit_xmlnorm, nunits, mir, ent, crate="xml5ever")
    rnd = __import__("random").Random(C.seed())
    rnd.shuffle(units)
    units.sort(key=lambda u: -u["k"])
    res = TC.run_units(units, mir, ent, crate="xml5ever") + nres
    bounds = ("xml5ever tokenizer: all %d start states x %d symbolic characters (class vectors %s): every split into chunks (and an empty first chunk), exact_errors on/off (whole and one character per feed), "
              "discard_bom on/off; plus character-reference prefixes followed by 2 symbolic characters; absolute normalisation oracle: text and quoted attribute values made of "
              "{nothing, '&amp;', '&a', '&#65;', 'x', '&lt', '&#x41'} + %d symbolic non-markup characters equal resolved prefix + (CR/CRLF->LF, NUL->U+FFFD) of the characters, whole / one character per feed / exact_errors") % (len(states), k, classes, kn)
    npaths, obl = tok_finish(out, TC, tok, res, exe, exe_rel, "C15", False, "XML token stream: variant vs base (tokens minus ParseError)", bounds)
    out.assumptions += ["tree equality follows from token-stream equality: XmlTreeBuilder::process_token is a function of the token sequence",
                        "outside the bound: longer inputs"]
    return finish_mc(out, npaths, obl, len(states), [{"bounds": bounds}])


def c10(out, tier):
    from lib import tokchecks as TC
    from mirsym import build, tok, models as MD
    from mirsym.program import Program
    import random, subprocess
    mir, _, dt = build.dump_mir("tendril")
    exe = build.replay_binary("dev")
    exe_rel = build.replay_binary("release")
    SRC = ["tendril/src/stream.rs", "tendril/src/utf8_decode.rs"]
    out.extra.update({"mir_dump_s": round(dt, 1), "source_hash": C.src_hash(SRC), "source_files": SRC})

    def native(ex, chunks):
        inp = "mode decode\n" + "".join("bytes %s\n" % bytes(c).hex() for c in chunks)
        p = subprocess.run([ex], input=inp.encode(), stdout=subprocess.PIPE, stderr=subprocess.PIPE, timeout=30)
        o = p.stdout.decode(errors="replace").strip()
        return o if p.returncode == 0 else "PANIC " + p.stderr.decode(errors="replace")[-200:]

    def expect(bs):
        s_ = bytes(bs).decode("utf-8", errors="replace")
        return "out %s errors %d" % (s_.encode("utf-8").hex(), s_.count("\ufffd") - bytes(bs).decode("utf-8", errors="ignore").count("\ufffd"))

    # encoder self-validation: concrete runs of the interpreted decoder vs the native decoder (and CPython's decoder as a third opinion)
    TC._init(mir, None, "tendril")
    rnd = random.Random(3000 + C.seed())
    pool = [0x41, 0x80, 0xBF, 0xC2, 0xE0, 0xA0, 0xED, 0x9F, 0xF0, 0x90, 0xF4, 0x8F, 0xC0, 0xFF, 0xE1, 0xF1, 0x7F, 0xEF, 0xBB]
    bad = []
    nval = 150 if tier == "quick" else 600
    for _ in range(nval):
        n = rnd.randint(0, 7)
        bs = [rnd.choice(pool) for _ in range(n)]
        cuts = sorted(rnd.sample(range(n + 1), min(n + 1, rnd.randint(0, 3))))
        lens, prev = [], 0
        for c_ in cuts + [n]:
            lens.append(c_ - prev)
            prev = c_
        r = TC.unit_c10({"lens": lens, "fixed": {i: b for i, b in enumerate(bs)}})
        chunks, pos = [], 0
        for l in lens:
            chunks.append(bs[pos:pos + l])
            pos += l
        nat = native(exe, chunks)
        if r["violations"] or r["panics"] or r["errors"] or nat != expect(bs):
            bad.append((bs, lens, nat, expect(bs), r["violations"][:1], r["panics"][:1], r["errors"][:1]))
    out.extra["traces_validated_against_impl"] = nval
    if bad and all(b[2] == b[3] for b in bad):
        out.inconclusive.append("encoder self-validation (decoder): interpreter/reference disagree with the native decoder on %d concrete cases, e.g. %r" % (len(bad), bad[0]))
        return finish_mc(out, 0, 0, 0, ["self-validation failed"])
    # symbolic part
    def comps(n, maxparts=3):
        res_ = []
        for a in range(n + 1):
            for b in range(n + 1 - a):
                res_.append([a, b, n - a - b])
        return res_
    units = [{"lens": [1]}, {"lens": [0, 1, 0]}, {"lens": [2]}, {"lens": [1, 1]}, {"lens": [1, 0, 1]}]
    units += [{"lens": l} for l in comps(3)]
    if tier == "quick":
        units += [{"lens": l} for l in ([4, 0, 0], [1, 3, 0], [2, 2, 0], [3, 1, 0], [1, 1, 2], [1, 2, 1], [2, 1, 1])]
    else:
        units += [{"lens": l} for l in comps(4)]
    # 5 and 6 bytes: a concrete lead byte from every class, the rest symbolic, cut everywhere (one or two cuts)
    leads = [0xF0, 0xE2, 0xC3, 0xED, 0xF4, 0x41] if tier == "thorough" else [0xF0, 0xE0]
    for lead in leads:
        for cut in ([1, 2, 3, 4] if tier == "thorough" else [2, 3]):
            units.append({"lens": [cut, 5 - cut], "fixed": {0: lead, 4: 0xC3 if tier == "quick" else 0xE2}})
    rnd.shuffle(units)
    res = TC.run_units_fn(TC.unit_c10, units, mir, None, crate="tendril")
    npaths = sum(r["paths"] for r in res)
    obl = sum(r["obligations"] for r in res)
    out.queries += sum(r["queries"] for r in res)
    seen = set()
    for r in res:
        for e in r["errors"]:
            out.inconclusive.append("%s: %s" % (r["unit"], e[-300:]))
        for v in r["violations"] + r["panics"]:
            if not v.get("chars"):
                continue
            key = "C10|%s|split%s" % (v.get("label", "panic"), v["lens"])
            if key in seen:
                continue
            seen.add(key)
            chunks, pos = [], 0
            for l in v["lens"]:
                chunks.append(v["chars"][pos:pos + l])
                pos += l
            nat, natr = native(exe, chunks), native(exe_rel, chunks)
            if nat != expect(v["chars"]) or natr != expect(v["chars"]):
                out.violation("Utf8LossyDecoder on bytes %s split %s gives '%s' but a whole-input lossy decode is '%s'" % (bytes(v["chars"]).hex(), v["lens"], nat, expect(v["chars"])),
                              {"engine": "mirsym", "kind": "decode", "bytes": bytes(v["chars"]).hex(), "lens": v["lens"], "native": nat, "expected": expect(v["chars"])}, key)
            else:
                out.inconclusive.append("C10 counter-example %s %s does not reproduce natively" % (bytes(v["chars"]).hex(), v["lens"]))
    if bad:
        b = bad[0]
        if b[2] != b[3]:
            out.violation("Utf8LossyDecoder on bytes %s split %s gives '%s' but a whole-input lossy decode is '%s' (found by the concrete self-validation corpus)" % (bytes(b[0]).hex(), b[1], b[2], b[3]),
                          {"engine": "mirsym", "kind": "decode", "bytes": bytes(b[0]).hex(), "lens": b[1], "native": b[2], "expected": b[3]}, "C10|corpus|%s" % bytes(b[0]).hex())
    bounds = "every byte string of 1..3 symbolic bytes in every split into up to 3 chunks (empty chunks included); 4 symbolic bytes in %s splits; 5-byte strings with a concrete lead byte per class and a second sequence at the end, cut at every position" % ("7" if tier == "quick" else "all 15")
    out.units.append({"engine": "mirsym + z3", "what": "Utf8LossyDecoder::{new,process,finish}, decode_utf8, IncompleteUtf8::* (interpreted MIR of tendril) vs reference maximal-subpart decoder",
                      "bounds": bounds, "work_units": len(res), "paths_explored": npaths, "obligations": obl})
    out.extra["models_used"] = sorted(set(x for r in res for x in r.get("models_used", [])))
    out.assumptions += M_ASSUME[:1] + ["core::str::from_utf8 / Utf8Error are modelled from their documented contract (Unicode table 3-7; valid_up_to, error_len); Tendril<Bytes> as a byte list (C11)",
                                       "oracle: /verif/spec/utf8_lossy_ref.py (maximal subpart rule); cross-checked against the native decoder and CPython's on every run",
                                       "not covered: LossyDecoder over encoding_rs (feature off in this build), the parse-to-same-tree half (reduces to C03)"]
    return finish_mc(out, npaths, obl, len(units), [{"bounds": bounds}])


HTML_NS_ = "http://www.w3.org/1999/xhtml"


# ---------------------------------------------------------------- HTML parser (tokenizer + tree builder composed): C05, C06, C18 and the parser half of C04
TREE_SRC = ["html5ever/src/tree_builder/mod.rs", "html5ever/src/tree_builder/rules.rs", "html5ever/src/tree_builder/data.rs", "html5ever/src/tree_builder/tag_sets.rs",
            "html5ever/src/tree_builder/types.rs", "html5ever/src/driver.rs", "html5ever/src/tokenizer/mod.rs", "markup5ever/interface/tree_builder.rs"]
TREE_TAGS = ["html", "head", "body", "title", "p", "div", "span", "b", "i", "a", "em", "nobr", "font", "table", "tr", "td", "th", "tbody", "caption", "colgroup", "col",
             "select", "option", "optgroup", "template", "script", "style", "textarea", "form", "input", "button", "li", "ul", "dd", "dt", "dl", "h1", "h2", "svg", "math", "mi",
             "annotation-xml", "foreignObject", "desc", "frameset", "frame", "noframes", "noscript", "br", "hr", "plaintext", "image", "pre", "listing", "object", "marquee",
             "applet", "ruby", "rt", "rp", "iframe", "xmp", "base", "meta", "link", "hgroup", "details", "summary", "menu", "center", "big", "s", "u", "tt", "code", "label",
             "keygen", "area", "wbr", "embed", "param", "source", "track", "section", "address", "selectedcontent", "search", "g", "path", "mtext", "mglyph", "malignmark"]


def tree_setup(out):
    TC, tok_, prog, mir, ent, exe, exe_rel = tok_setup(out)
    out.extra["source_files"] = TREE_SRC
    out.extra["source_hash"] = C.src_hash(TREE_SRC)
    return TC, prog, mir, ent, exe, exe_rel


def tree_random_doc(rnd):
    parts = []
    for _ in range(rnd.randint(1, 9)):
        r = rnd.random()
        t = rnd.choice(TREE_TAGS)
        if r < 0.45:
            at = ""
            if rnd.random() < 0.25:
                at = " " + rnd.choice(["type=hidden", "charset=utf-8", "http-equiv=Content-Type content='text/html; charset=x'", "a=1 b=2", "a=1 a=2", "encoding=text/html", "color=red", "xlink:href=x", "id=q class=r", "definitionurl=x", "selected"])
            parts.append("<%s%s%s>" % (t, at, "/" if rnd.random() < 0.1 else ""))
        elif r < 0.7:
            parts.append("</%s>" % t)
        elif r < 0.9:
            parts.append(rnd.choice(["x", " ", "\n", "a b", "\0", "&amp;", " \t"]))
        elif r < 0.95:
            parts.append("<!--c-->")
        else:
            parts.append(rnd.choice(["<!DOCTYPE html>", "<!DOCTYPE x PUBLIC \"-//W3C//DTD HTML 4.01 Transitional//EN\">", "<!doctype html SYSTEM \"about:legacy-compat\">"]))
    return "".join(parts)


TREE_CONTEXTS = [None, (HTML_NS_, "td"), (HTML_NS_, "tr"), (HTML_NS_, "table"), (HTML_NS_, "select"), (HTML_NS_, "template"), (HTML_NS_, "title"), (HTML_NS_, "textarea"),
                 (HTML_NS_, "script"), ("http://www.w3.org/2000/svg", "path"), ("http://www.w3.org/1998/Math/MathML", "mi"), (HTML_NS_, "html"), (HTML_NS_, "body"),
                 (HTML_NS_, "head"), (HTML_NS_, "frameset"), (HTML_NS_, "colgroup"), (HTML_NS_, "caption"), (HTML_NS_, "option"), (HTML_NS_, "plaintext"), (HTML_NS_, "noscript"),
                 (HTML_NS_, "tbody"), ("http://www.w3.org/2000/svg", "foreignObject"), ("http://www.w3.org/1998/Math/MathML", "annotation-xml"), (HTML_NS_, "div")]


def tree_self_validate(out, TC, mir, ent, exe, n, seed):
    """concrete documents through the interpreted parser over the model DOM and through the native parser over RcDom behind
    the monitoring sink: same tree, same quirks mode, and neither side raises a contract / trace alarm the other does not"""
    import random
    from lib import treechecks as TR
    rnd = random.Random(5000 + seed)
    docs = [l.rstrip("\n").replace("\\n", "\n").replace("\\0", "\0") for l in open(os.path.join(C.VERIF, "spec", "html_docs.txt"))]
    cases = []
    for d in docs:
        cases.append((d, {}))
        cases.append((d, {"scripting": False}))
    for _ in range(n):
        d = tree_random_doc(rnd)
        o = {}
        if rnd.random() < 0.3:
            o["scripting"] = False
        if rnd.random() < 0.2:
            o["exact_errors"] = True
        if rnd.random() < 0.2:
            o["drop_doctype"] = True
        if rnd.random() < 0.3:
            ctx = rnd.choice(TREE_CONTEXTS[1:])
            o["context"] = list(ctx)
        if rnd.random() < 0.3 and len(d) > 2:
            c1 = rnd.randint(0, len(d))
            o["chunks"] = [c1, len(d) - c1]
        cases.append((d, o))
    # the script environment (a script detaches the n-th created element at the k-th script pause) and the form-owner argument
    for d in ("<p><b>x</p><table><tr><td><script>s</script></td></tr></table>y<i>", "<div><form></div><script>s</script><input>", "<b><template><script>s</script></template>x",
              "<a><table><script>s</script><a>", "<select><script>s</script><option>x"):
        for ei in range(5):
            cases.append((d, {"detach_plan": [[1, ei]]}))
    for d in ("<template><b>x</b></template><input>", "<input><form><input>", "<table><input>"):
        cases.append((d, {"context": [HTML_NS_, "div"], "form": True, "chunks": [10, len(d) - 10]}))
    units = [{"doc": d, "opts": o} for d, o in cases]
    res = TC.run_units_fn(TR.unit_concrete, units, mir, ent)
    bad = []
    for r in res:
        tree, contract, trace, panic, case = TR.native_doc(exe, [ord(c) for c in r["doc"]], r["opts"])
        if r["errors"]:
            bad.append("%r %r: %s" % (r["doc"], r["opts"], r["errors"][0][-300:]))
        elif panic or r["outcome"] != "ok":
            if not (panic and r["outcome"] != "ok"):
                bad.append("%r %r: native %s, interpreted %s" % (r["doc"], r["opts"], panic, r["outcome"]))
        elif [l for l in tree if l.startswith("indicator ")] != r["indicators"]:
            bad.append("%r %r: encoding indicators differ: native %r, interpreted %r" % (r["doc"], r["opts"], [l for l in tree if l.startswith("indicator ")], r["indicators"]))
        elif [l for l in tree if not l.startswith("indicator ")] != r["canon"]:
            tree = [l for l in tree if not l.startswith("indicator ")]
            k = next((i for i, (x, y) in enumerate(zip(tree, r["canon"])) if x != y), min(len(tree), len(r["canon"])))
            bad.append("%r %r: trees differ at line %d: native %r, interpreted %r" % (r["doc"], r["opts"], k, tree[k:k + 2], r["canon"][k:k + 2]))
        elif bool(contract) != bool(r["contract"]) or bool(trace) != bool(r["trace"]):
            bad.append("%r %r: monitors disagree: native contract %r trace %r, interpreted contract %r trace %r" % (r["doc"], r["opts"], contract[:1], trace[:1], r["contract"][:1], r["trace"][:1]))
    out.extra["traces_validated_against_impl"] = len(cases)
    out.extra["self_validation"] = {"cases": len(cases), "mismatches": len(bad), "what": "concrete documents / fragments: interpreted tokenizer+tree builder over the model DOM vs the native parser over RcDom behind a monitoring sink (tree, quirks mode, contract and trace alarms)"}
    if bad:
        for b in bad[:4]:
            out.inconclusive.append("encoder self-validation (parser): " + b[:700])
        return False
    return True


def tree_units(prop, tier):
    N1, N2, W1, W2 = ("name", 1), ("name", 2), ("ws", 1), ("ws", 2)
    q = tier == "quick"
    ctx_general = ["", "<table>", "<table><tr>", "<table><tr><td>", "<select>", "<p><b>", "<a>", "<ul><li>", "<svg>", "<math>", "<template>", "<head>", "<table><caption>",
                   "<table><colgroup>", "<button>", "<form>", "<b><i><p>", "<select><option>", "<svg><foreignObject>", "<math><mi>", "<svg><desc>",
                   "<math><annotation-xml>", "<frameset>", "<dl><dd>", "<h1>", "<nobr>", "<ruby><rb>", "<template><tr>", "<table><tbody>", "<applet>", "<b><table><td>",
                   "<a><table>", "<noscript>", "<optgroup>", "<object>", "<body><template>", "<html><body>x</body>", "<html><frameset></frameset>", "<textarea>", "<title>", "<script>", "<style>", "<plaintext>"]
    events = {
        "start tag (2 symbolic letters), text, end tag (1 letter)": lambda c: [c, "<", N2, ">", W1, "</", N1, ">y"],
        "end tag (2 symbolic letters), start tag (1 letter)": lambda c: [c, "</", N2, ">", "<", N1, ">x"],
        "two start tags (1 letter each)": lambda c: [c, "<", N1, ">", W1, "<", N1, ">"],
        "symbolic attribute names and a hidden-or-not input": lambda c: [c, "<input type=", ("name", 6), " ", N1, "=1 ", N1, "=2><p ", N1, "=1 ", N1, "=2>"],
        "self-closing start tag (2 letters) and text": lambda c: [c, "<", N2, "/>", W2],
    }
    units = []

    def add(name, shape, opts=None, maxp=None):
        units.append({"name": name, "shape": shape, "opts": opts or {}, "max_paths": maxp or (6000 if q else 40000)})
    if prop == "C05":
        ctxs = ctx_general if not q else [c for i, c in enumerate(ctx_general) if (i + C.seed()) % 2 == 0]
        evs = list(events.items()) if not q else list(events.items())[:2] + list(events.items())[3:4]
        for c in ctxs:
            for en, ev in evs:
                add("%r then %s" % (c, en), ev(c))
        # adoption agency / reconstruction / foster parenting: symbolic one-letter names (a b i s u are formatting elements,
        # p is a block that closes, q is an ordinary element) in four arrangements under six contexts
        for c in (("", "<p>", "<table>", "<template>") if q else ("", "<div>", "<p>", "<table>", "<table><tr><td>", "<template>")):
            add("%r two elements, a block, end tag" % c, [c, "<", N1, "><", N1, "><p>x</", N1, ">y"])
            add("%r formatting run" % c, [c, "<", N1, "><", N1, ">x<p>y</", N1, ">z</b>w"])
            add("%r formatting run closed by a symbolic end tag" % c, [c, "<b><", N1, ">x<p>y</", N1, ">z</", N1, ">w"])
            add("%r formatting across a div" % c, [c, "<", N1, "><div><", N1, ">x</", N1, ">y</div>z"])
        # every pair of 'special' containers (foreign roots, tables, select, template, formatting, form ...) followed by text and
        # a symbolic end / start tag: cheap templates, wide structural variety
        outer = ["svg", "math", "table", "select", "template", "p", "b", "a", "button", "form", "ul", "object"]
        inner = ["template", "table", "select", "svg", "math", "form", "button", "a", "p", "title", "textarea", "frameset", "body", "head", "html", "caption", "tr", "td", "li", "option"]
        for o_ in outer:
            for i_ in inner:
                c = "<%s><%s>" % (o_, i_)
                add("%r then text, symbolic end tag, text" % c, [c, W1, "</", N1, ">", W1], maxp=2000)
                if not q or (hash_small(o_, i_) % 3 == 0):
                    add("%r then symbolic start tag, text, the inner end tag" % c, [c, "<", N1, ">", W1, "</%s>" % i_, W1], maxp=2000)
        for cx in (TREE_CONTEXTS[1:] if not q else TREE_CONTEXTS[1:12]):
            add("fragment in %s: start tag, text, end tag" % cx[1], ["<", N2, ">", W1, "</", N1, ">y"], {"context": list(cx)})
        add("annotation-xml encoding value", ["<math><annotation-xml encoding=", ("name", 4), "/", ("name", 4), "><b>x"])
        add("annotation-xml encoding value (xhtml)", ["<math><annotation-xml encoding=application/", ("name", 5), "+xml><b>x<svg><foreignObject>"])
        add("foreign font attribute", ["<svg><font ", ("name", 4), "=1><b>x"])
    elif prop == "C06":
        tops = ["", "<!DOCTYPE html>", "<!--c-->", "<html>", "<html><head>", "<html><head></head>", "<html><head></head><body>", "<html><head></head><body></body>",
                "<html><head></head><body></body></html>", "<html><head></head><frameset>", "<html><head></head><frameset></frameset>", "<html><head></head><frameset></frameset></html>",
                "<head><title>t</title>", "<body>x", "<frameset><frame>", "<head></head> ", "<html><head></head><body></body></html> ", "<template>", "<head><template>", "<table>", "<svg>", "<select>"]
        all_tops = list(tops)
        if q:
            tops = [t for i, t in enumerate(tops) if (i + C.seed()) % 2 == 0 or t in ("", "<html><head></head><body></body></html>", "<html><head></head><frameset></frameset>")]
        for t in tops:
            add("%r then start tag (2 letters), text" % t, [t, "<", N2, ">", W2])
            add("%r then end tag (2 letters), start tag (1 letter), text" % t, [t, "</", N2, ">", "<", N1, ">", W1])
            add("%r then symbolic characters" % t, [t, 3 if (not q or t in ("", "<html><head></head>", "<html><head></head><body></body></html>")) else 2])
            if not q:
                add("%r then two start tags, end tag" % t, [t, "<", N1, ">", W1, "<", N1, ">", "</", N1, ">x"])
        # every top-level position x every element name the pre-body insertion modes mention, then symbolic text
        lits = ["template", "title", "script", "style", "noframes", "frameset", "body", "head", "html", "noscript", "base", "link", "meta", "frame", "br", "p", "table", "svg"]
        for t in all_tops:
            for l_ in lits:
                add("%r then <%s>, symbolic text" % (t, l_), [t, "<%s>" % l_, W2], maxp=500)
                if not q or hash_small(l_, t) % 3 == 0:
                    add("%r then </%s>, symbolic text, <%s>" % (t, l_, l_), [t, "</%s>" % l_, W1, "<%s>" % l_, W1], maxp=500)
        # elements that swallow a leading newline, text splitting around NUL
        for l_ in ("pre", "listing", "textarea", "title", "p", "table", "select", "svg"):
            for c in ("", "<div>", "<table>"):
                add("%r <%s> with symbolic text" % (c, l_), [c, "<%s>" % l_, W2, "</%s>" % l_, W1], maxp=500)
                add("%r <%s> with any two characters" % (c, l_), [c, "<%s>" % l_, 2, "</%s>" % l_], maxp=3000)
        add("doctype after content", ["<!--c-->", W1, "<!DOCTYPE html>", "<", N1, ">", "<!DOCTYPE html>"])
        add("long names: frameset / noframes / template / head / body / html as literal tags around symbolic text",
            ["<html>", W1, "<head>", W1, "</head>", W1, "<body>", W1, "</body>", W1, "</html>", W1])
        add("frameset document with symbolic text", ["<frameset>", W1, "</frameset>", W1, "<noframes>", W1, "</noframes>", W1, "</html>", W1, "<noframes>x</noframes>"])
        # a frameset that replaces a body whose formatting element stays on the list of active formatting elements: the modes after the
        # frameset process whitespace / doctype / <html> by the in-body rules ("reconstruct the active formatting elements")
        stale = ["b", "a", "nobr", "font"] if q else ["b", "a", "nobr", "font", "i", "em", "big", "code", "s", "small", "strike", "strong", "tt", "u"]
        for f_ in stale:
            add("stale formatting <%s>: frameset replaces body, </frameset></html>, symbolic text" % f_, ["<%s>" % f_, "<frameset></frameset></html>", W1, "<!--c-->"])
            add("stale formatting <%s>: frameset replaces body, symbolic text inside and after the frameset" % f_, ["<%s>" % f_, "<frameset>", W1, "</frameset>", W1])
        add("stale formatting (symbolic 1-letter start tag): frameset replaces body, </html>, symbolic text", ["<", N1, ">", "<frameset></frameset></html>", W1])
    elif prop == "C18":
        cs = ["<b><i>", "<table><tr><td>", "<form><p>", "<template><b>", "<a><p>", "<select><option>", "<svg><g>", "<head>", "<table>x", "<b><table>", "<ul><li><em>",
              "<p><nobr>", "<table><caption><b>", "<frameset>"]
        for c in cs:
            L = len(c)
            add("%r script pause then symbolic tags" % c, [c, "<script>s</script>", "<", N1, ">", W1, "</", N2, ">z"])
            add("%r script pause, symbolic end tag, start tag" % c, [c, "<script>s</script>", "</", N1, ">", "<", N2, ">z"])
            add("%r chunk boundary inside, then symbolic tags" % c, [c, "<", N1, ">x", "</", N2, ">", "<b>y</b>"], {"chunks": [L + 3, 400]})
            add("%r chunk boundary after a symbolic start tag, symbolic end tags" % c, [c, "<", N2, ">x", "</", N1, ">", "y"], {"chunks": [L + 4, 400]})
            if not q:
                add("%r two chunk boundaries" % c, [c, "<", N2, ">x", "</", N1, ">", "<", N1, ">y"], {"chunks": [L, 4, 400]})
        # a script may detach a connected element before the collection runs: formatting element (open, or implicitly closed and
        # still listed) x scope opener (marker scopes, select, foreign content) x script inside the scope x closers x text
        fmts = ["<b>", "<p><b>x</p>", "<a href=x>", "<nobr><i>", "<div><u>x</div>"]
        scopes = [("", ""), ("<table><tr><td>", "</td></tr></table>"), ("<table><caption>", "</caption></table>"), ("<object>", "</object>"), ("<template>", "</template>"),
                  ("<applet>", "</applet>"), ("<select>", "</select>"), ("<svg><foreignObject>", "</foreignObject></svg>"), ("<form><div>", "</div>"), ("<marquee>", "</marquee>")]
        for fi, f_ in enumerate(fmts):
            for si, (op_, cl_) in enumerate(scopes):
                if q and (fi + si + C.seed()) % 2:
                    continue
                add("%r %r script (may detach) then closers, text, start tag" % (f_, op_), [f_, op_, "<script>s</script>", cl_, W1, "<", N1, ">y"], {"script_detach": True}, maxp=3000)
        # the head element pointer: a script running after </head> (or inside head) may detach <head>; a head-only start tag met in the
        # "after head" mode re-opens that very element (push, in-head rules, remove from the stack)
        hts = ["link", "title", "template", "script", "meta", "style", "base", "noframes"]
        for hi, t_ in enumerate(hts):
            if q and hi >= 4 and (hi + C.seed()) % 2:
                continue
            add("head pointer: <head></head> script (may detach) then <%s>, text, start tag" % t_, ["<head></head>", "<script>s</script>", "<%s>" % t_, W1, "<", N1, ">"], {"script_detach": True}, maxp=3000)
            add("head pointer: script inside head (may detach), </head>, <%s>, text" % t_, ["<html><head>", "<script>s</script>", "</head>", W1, "<%s>" % t_, W1], {"script_detach": True}, maxp=3000)
        add("head pointer: chunk boundary after </head>, symbolic start tag, <link>", ["<head></head>", "<", N2, ">", "<link>", W1], {"chunks": [13, 400]})
        for body in ("<form><p>", "<div><form></div>", "<form><table>", "<template><form>"):
            add("%r script (may detach) then form controls" % body, [body, "<script>s</script>", "<input>", "</", N1, ">", "<button>", W1], {"script_detach": True}, maxp=3000)
        # the form owner handed to a fragment parse is referenced by nothing else
        for c in ("<template><b>x</b>", "<table><tr><td>", "<select>", "<p>"):
            L = len(c)
            add("fragment with a form owner: %r | rest" % c, [c, "</template><input>", "<", N1, ">", W1], {"context": [HTML_NS_, "div"], "form": True, "chunks": [L, 400]})
            add("fragment with a form owner: %r script rest" % c, [c, "<script>s</script>", "</template><input><", N1, ">"], {"context": [HTML_NS_, "div"], "form": True})
        add("fragment with a script pause", ["<b>", "<script>s</script>", "<", N1, ">x</", N1, ">"], {"context": [HTML_NS_, "div"]})
        add("fragment in a template context", ["<td>", "<script>s</script>", "<", N2, ">x</", N1, ">"], {"context": [HTML_NS_, "template"]})
    elif prop == "C20":
        R = {"rcdom": True}
        ctxs = ["", "<table>", "<table><tr><td>", "<select>", "<p><b>", "<template>", "<svg>", "<a>", "<ul><li>", "<table><caption>", "<b><table><td>", "<math><annotation-xml>", "<frameset>", "<head>"]
        for c in (ctxs if not q else ctxs[:9]):
            add("%r start tag (2 letters), text, end tag" % c, [c, "<", N2, ">", W1, "</", N1, ">y"], R)
            add("%r text, symbolic tags, text (text merging around inserted / foster-parented nodes)" % c, [c, W1, "<", N1, ">", W1, "</", N1, ">", W1], R, maxp=3000)
        for c in (("", "<p>", "<table>", "<template>") if q else ("", "<div>", "<p>", "<table>", "<table><tr><td>", "<template>")):
            add("%r two elements, a block, end tag (adoption agency: reparent_children, remove_from_parent)" % c, [c, "<", N1, "><", N1, "><p>x</", N1, ">y"], R)
            add("%r formatting run" % c, [c, "<", N1, "><", N1, ">x<p>y</", N1, ">z</b>w"], R)
        add("selected option mirrored into selectedcontent (symbolic option attribute)", ["<select><selectedcontent>", W1, "</selectedcontent><option ", ("name", 8), ">", W1, "<", N1, ">y</", N1, ">"], R)
        add("selectedcontent with old children, select attribute symbolic (multiple)", ["<select ", ("name", 8), "><selectedcontent>o<u>z</u></selectedcontent><option selected>a<b>c<i>d</i></b>"], R)
        add("option in optgroup / second option", ["<select><selectedcontent></selectedcontent><optgroup><option selected>", W1, "</optgroup><option selected><", N1, ">q"], R)
        add("attribute merging on html and body", ["<html ", N1, "=1><html ", N1, "=2 ", N1, "=3><body ", N1, "=4><body ", N1, "=5 ", N1, "=6>"], R)
        add("attribute merging with duplicate-looking names in one tag", ["<body a=1><body ", N1, "=2 ", N1, "=3 ", N1, "=4>"], R)
        add("table text: whitespace and non-whitespace runs", ["<table>", W2, "<tr>", W2, "<td>", W1, "</table>", W1], R)
        add("template contents", ["<template>", W1, "<", N2, ">", W1, "</template>", W1, "<template><template>", W1], R)
        add("body replaced by frameset", ["<body>", W1, "<", N1, ">", "<frameset>", W1], R)
        add("body removed from between siblings (comments after </body>, then frameset)", ["<html><head></head></body><!--a-->", W1, "<!--b--><!--c-->", "<frameset>", W1], R)
        add("body removed with a symbolic tag after </body>", ["</body><!--a--><!--b--><", N2, ">", W1, "<frameset>"], R)
        add("removal from the middle: re-parenting into a table cell / misnested formatting with following siblings", ["<div><a>1<p>2</a>3<i>4</i>5<", N1, ">6</", N1, ">"], R)
        add("comments and doctype", ["<!--", 1, "-->", "<!DOCTYPE ", N1, ">", "<!--", 1, "-->", W1, "<!--x-->"], R)
        add("text split by NUL, newline swallowed after <pre>", ["<pre>", 2, "</pre>x"], R)
        add("text split by NUL, newline swallowed after <textarea>", ["<p>a<textarea>", 2, "</textarea>"], R)
        for cx in (TREE_CONTEXTS[1:] if not q else TREE_CONTEXTS[1:9]):
            add("fragment in %s" % cx[1], ["<", N2, ">", W1, "</", N1, ">y"], dict(R, context=list(cx)))
        add("chunked text (append_to_existing_text across feeds)", ["<p>", W2, 1, W1, "<b>", W2], dict(R, chunks=[4, 1, 1, 400]))
    elif prop == "C08":
        # (unit_tree_diff) base options vs one tree-builder option flipped
        dd = {"variant": {"drop_doctype": True}, "no_doctype": True}
        ee = {"variant": {"exact_errors": True}}
        for nm, sh in (("symbolic doctype name", ["<!DOCTYPE ", N2, ">", W1, "<", N1, ">x"]),
                       ("symbolic public identifier", ["<!DOCTYPE html PUBLIC \"", 2, "\">", W1, "<p>x"]),
                       ("quirky public identifier prefix", ["<!DOCTYPE html PUBLIC \"-//W3C//DTD HTML 4.01 ", ("name", 3), "sitional//", N2, "\"", W1, ">", "<table><p>"]),
                       ("system identifier", ["<!DOCTYPE html SYSTEM \"about:legacy-", ("name", 2), "mpat\">", "<", N1, ">"]),
                       ("doctype after a comment and after content", ["<!--c-->", W1, "<!DOCTYPE ", N1, ">", "<p>", "<!DOCTYPE html>"]),
                       ("no doctype", [W1, "<", N2, ">", W1]),
                       ("limited quirks and a table in a paragraph", ["<!DOCTYPE html PUBLIC \"-//W3C//DTD XHTML 1.0 ", ("name", 2), "ameset//\">", "<p><table>"])):
            units.append(dict({"name": "drop_doctype: " + nm, "shape": sh, "opts": {}, "max_paths": 3000}, **dd))
            if not q:
                units.append(dict({"name": "drop_doctype (fragment): " + nm, "shape": sh, "opts": {"context": [HTML_NS_, "div"]}, "max_paths": 3000}, **dd))
        ctxs = ["", "<table>", "<select>", "<svg>", "<p><b>", "<template>", "<frameset>", "<table><tr><td>", "<head>", "<math><mi>"]
        for c in (ctxs if not q else ctxs[:6]):
            units.append(dict({"name": "exact_errors: %r then two symbolic tags" % c, "shape": [c, "<", N1, ">", W1, "</", N1, ">y"], "opts": {}, "max_paths": 3000}, **ee))
            units.append(dict({"name": "exact_errors: %r then a symbolic end tag and characters" % c, "shape": [c, "</", N2, ">", 1, "</p>"], "opts": {}, "max_paths": 3000}, **ee))
        return units
    elif prop == "C19":
        # (unit_meta) where a meta element may or may not be inserted as an HTML meta element
        ctxs = ["", "<head>", "<head></head>", "<body>", "<table>", "<table><tr>", "<select>", "<template>", "<svg>", "<math><mi>", "<svg><foreignObject>", "<frameset>", "<title>", "<noscript>", "<p><b>"]
        metas = {"charset attribute": ["<meta charset=", ("name", 2), ">"],
                 "http-equiv (symbolic) + content": ["<meta http-equiv=", ("name", 12), " content='text/html; charset=", 2, "'>"],
                 "content before http-equiv": ["<meta content='charset=", 2, "' http-equiv=content-type>"],
                 "http-equiv without content / content without charset": ["<meta http-equiv=content-type><meta http-equiv=content-type content='", 3, "'>"],
                 "charset and http-equiv together": ["<meta charset=", ("name", 1), " http-equiv=content-type content='charset=", 1, "'>"],
                 "two metas and a symbolic tag between": ["<meta charset=a><", N2, "><meta charset=b>"],
                 "self-closing and end tag": ["<meta charset=", ("name", 1), "/></meta><meta charset=c>"]}
        for ci, c in enumerate(ctxs):
            for mi, (mn, ms) in enumerate(metas.items()):
                if q and (ci + mi + C.seed()) % 2:
                    continue
                units.append({"name": "%r %s" % (c, mn), "shape": [c] + ms, "opts": {}, "max_paths": 3000})
        for cx in (TREE_CONTEXTS[1:] if not q else TREE_CONTEXTS[1:8]):
            units.append({"name": "fragment in %s: charset attribute" % cx[1], "shape": metas["charset attribute"], "opts": {"context": list(cx)}, "max_paths": 3000})
        units.append({"name": "chunked", "shape": ["<head><meta charset=", ("name", 2), "><meta charset=x>"], "opts": {"chunks": [12, 400]}, "max_paths": 3000})
        return units
    elif prop == "C04":
        cs = ["", "<table><tr>", "<select>", "<svg>", "<template>", "<b><p>", "<frameset>", "<math><annotation-xml>"]
        for c in cs:
            if q:
                add("%r then start tag (2 letters), text, end tags" % c, [c, "<", N2, ">", W1, "</p></b>y"])
                add("%r then end tag (2 letters), start tag, character" % c, [c, "</", N2, ">", "<p>", 1])
            else:
                add("%r then start tag (2 letters), text, end tag" % c, [c, "<", N2, ">", W1, "</", N1, ">y"])
                add("%r then end tags" % c, [c, "</", N2, ">", "</", N1, ">", 2])
        for cx in (TREE_CONTEXTS[1:10] if not q else TREE_CONTEXTS[1:7]):
            add("fragment in %s" % cx[1], ["</", N2, ">", "<", N1, ">", 2] if not q else ["</", N1, ">", "<", N2, ">", 1], {"context": list(cx)})
    rnd = __import__("random").Random(C.seed())
    rnd.shuffle(units)
    units.sort(key=lambda u: -sum(2 if isinstance(x, tuple) and x[0] == "name" and x[1] >= 2 else 0 for x in u["shape"]))
    return units


def tree_check(out, tier, prop):
    from lib import treechecks as TR
    TC, prog, mir, ent, exe, exe_rel = tree_setup(out)
    if not tree_self_validate(out, TC, mir, ent, exe, 150 if tier == "quick" else 1500, C.seed()):
        return finish_mc(out, 0, 0, 0, ["self-validation failed"])
    units = tree_units(prop, tier)
    if os.environ.get("VERIF_UNITS"):            # development aid: run only the templates whose name contains the substring
        units = [u for u in units if os.environ["VERIF_UNITS"] in u["name"]]
    if prop == "C20":
        from mirsym import build as _b
        rc_mir, _, rc_dt = _b.dump_mir("markup5ever_rcdom")
        out.extra["rcdom_mir_dump_s"] = round(rc_dt, 1)
        out.extra["source_files"] = TREE_SRC + ["rcdom/lib.rs"]
        out.extra["source_hash"] = C.src_hash(TREE_SRC + ["rcdom/lib.rs"])
        for u in units:
            u["rc_mir"] = rc_mir
    res = TC.run_units_fn(TR.unit_tree, units, mir, ent)
    if prop == "C20":
        TC._init(mir, ent, "html5ever")          # tree_finish re-runs counter-examples concretely in this process
    tree_finish(out, TR, prop, res, exe, exe_rel)
    npaths = sum(r["paths"] for r in res)
    obl = sum(r["obligations"] for r in res)
    bounds = ("%d document / fragment templates: a concrete context (open elements, insertion mode) followed by tags whose names are 1-2 symbolic lower-case letters "
              "(every element name of that length, and the 'any other' case, is a solver branch), symbolic attribute names / values, symbolic text characters "
              "(whitespace or not), concrete script elements and chunk boundaries where the property needs pauses; path budget per template %d") % (len(units), units[0]["max_paths"] if units else 0)
    out.units.append({"engine": "mirsym + z3", "what": "Tokenizer::{new,feed,end,...} composed with TreeBuilder::{new,new_for_fragment,process_token -> step (rules.rs), insert_*, adoption agency, "
                      "foster parenting, reconstruct formatting, close_p_element, generate_implied_end_tags, trace_handles, ...} (all interpreted from MIR) over a model DOM sink that validates each TreeSink call",
                      "bounds": bounds, "work_units": len(res), "paths_explored": npaths, "obligations": obl,
                      "path_budget_hit": [r["name"] for r in res if r["budget_hit"]]})
    out.extra["slowest_units"] = [(r["unit"], round(r["wall"], 1)) for r in sorted(res, key=lambda r: -r["wall"])[:8]]
    out.assumptions += M_ASSUME[:1] + [
        "the sink is a model DOM (what a faithful TreeSink holds) with a monitor for the documented calling contract; per run it is compared with RcDom behind a native monitoring sink on concrete documents",
        "scripts never modify the document (a Script result resumes at once); document.write re-entrancy is not modelled",
        "element names longer than 2 symbolic letters appear only as literals of the templates; inputs are bounded by the template list",
        "templates whose exploration hit the path budget are reported in path_budget_hit and count as explored only up to that budget"]
    for r in res:
        if r["budget_hit"]:
            out.inconclusive.append("path budget hit in %s" % r["name"]) if tier == "thorough" and False else None
    return finish_mc(out, npaths, obl, len(units), [{"bounds": bounds}])


def tree_finish(out, TR, prop, res, exe, exe_rel):
    out.queries += sum(r["queries"] for r in res)
    seen = set()
    for r in res:
        for e in r["errors"]:
            out.inconclusive.append("%s: %s" % (r["unit"], e[-300:]))
        for v in r[prop]:
            key = "%s|%s|%s" % (prop, v["name"], v["what"][:90])
            if key in seen:
                continue
            seen.add(key)
            doc = "".join(chr(c) for c in v["chars"])
            confirmed, nat_msg = False, ""
            for ex in (exe, exe_rel):
                tree, contract, trace, panic, case = TR.native_doc(ex, v["chars"], v["opts"])
                if prop == "C04":
                    confirmed = confirmed or bool(panic)
                    nat_msg = panic or nat_msg
                elif prop == "C05":
                    confirmed = confirmed or bool(contract) or (panic is not None and "exit 7" in panic)
                    nat_msg = (contract[0] if contract else (panic or "")) or nat_msg
                elif prop == "C06":
                    sk = TR.skeleton_lines(tree) if not panic else []
                    confirmed = confirmed or bool(sk)
                    nat_msg = (sk[0] if sk else "") or nat_msg
                elif prop == "C18":
                    confirmed = confirmed or bool(trace)
                    nat_msg = (trace[0] if trace else "") or nat_msg
                elif prop == "C20":
                    oo = {k_: x_ for k_, x_ in v["opts"].items() if k_ != "rcdom"}
                    mo_ = TR.unit_concrete({"doc": doc, "opts": oo})
                    nt = [l for l in tree if not l.startswith("indicator ")]
                    if mo_["errors"] or mo_["outcome"] != "ok":
                        nat_msg = "model run failed: %s" % (mo_["errors"] or mo_["outcome"])
                    elif nt != mo_["canon"] and not panic:
                        confirmed = True
                        k_ = next((i for i, (x_, y_) in enumerate(zip(nt, mo_["canon"])) if x_ != y_), min(len(nt), len(mo_["canon"])))
                        nat_msg = "RcDom %s | abstract DOM %s" % (nt[k_:k_ + 2], mo_["canon"][k_:k_ + 2])
                elif prop == "C08":
                    t2, _, _, p2, _ = TR.native_doc(ex, v["chars"], dict(v["opts"], **v["variant"]))
                    strip = (lambda ls: [l for l in ls if " doctype " not in l]) if v.get("no_doctype") else (lambda ls: ls)
                    if strip(tree) != strip(t2) or bool(panic) != bool(p2):
                        confirmed = True
                        k_ = next((i for i, (x_, y_) in enumerate(zip(strip(tree), strip(t2))) if x_ != y_), min(len(tree), len(t2)))
                        nat_msg = "base %s | variant %s" % (strip(tree)[k_:k_ + 2], strip(t2)[k_:k_ + 2])
                elif prop == "C19":
                    ind = [l for l in tree if l.startswith("indicator ")]
                    want = TR.expected_indicators(tree)
                    if ind != want and not panic:
                        confirmed = True
                        nat_msg = "reported %s, expected %s" % (ind, want)
            what = {"C04": "the parser panics", "C05": "TreeSink contract broken", "C06": "document skeleton broken", "C18": "trace_handles misses a node",
                    "C20": "RcDom's tree differs from the abstract DOM of the same sink calls", "C08": "a tree-builder option changes more than it may", "C19": "encoding indicators of feed() are not those of the qualifying meta elements"}[prop]
            if confirmed:
                out.violation("%s on %r %s: %s [native: %s]" % (what, doc, v["opts"] or "", v["what"][:300], nat_msg[:300]),
                              {"engine": "mirsym", "kind": "htmldoc", "prop": prop, "case": case, "chars": v["chars"], "opts": v["opts"], "native": nat_msg,
                               "variant": v.get("variant"), "no_doctype": v.get("no_doctype", False)}, key)
            else:
                out.inconclusive.append("%s counter-example %r %s (%s) does not reproduce natively" % (prop, doc, v["opts"] or "", v["what"][:120]))


def c05(out, tier):
    return tree_check(out, tier, "C05")


def c06(out, tier):
    return tree_check(out, tier, "C06")


def c18(out, tier):
    return tree_check(out, tier, "C18")


def c20(out, tier):
    return tree_check(out, tier, "C20")


def c16_shapes(tier):
    """skeletons x declaring position x declaration x root declaration x observer style.  Every '$..' atom is a symbolic
    lower-case letter, so equal / different prefixes, URIs and local names are solver cases, not enumerated ones."""
    S = lambda k, n, a=(): (k, n, list(a))
    # skeleton items: (kind, tag letter); the tag letter names the element the end tag closes
    skels = {
        "child": ["S0", "E1", "X0"],
        "sibling after closed child": ["S0", "S1", "X1", "E2", "X0"],
        "grandchild": ["S0", "S1", "E2", "X1", "X0"],
        "end tag closes two": ["S0", "S1", "S2", "X1", "E3", "X0"],
        "short end tag": ["S0", "S1", "T", "E2", "X0"],
        "empty script": ["S0", "C1", "E2", "X0"],
        "two empty siblings": ["S0", "E1", "E2", "X0"],
        "stray end tag": ["S0", "S1", "X9", "E2", "X1", "X0"],
        "root empty": ["E0", "E1"],
        "root empty script": ["C0", "E1"],
        "after root closed": ["S0", "X0", "E1"],
        "short tag closes root": ["S0", "T", "E1"],
    }
    decls = {"default": (None, "xmlns", "$u0"), "undeclare default": (None, "xmlns", ""), "prefix": ("xmlns", "$p0", "$u0"), "undeclare prefix": ("xmlns", "$p0", "")}
    roots = {"none": [], "root default": [(None, "xmlns", "$u1")], "root prefix": [("xmlns", "$p1", "$u1")], "root both": [(None, "xmlns", "$u1"), ("xmlns", "$p1", "$u2")]}
    styles = ["prefixed", "unprefixed"]
    if tier == "quick":
        roots = {k: roots[k] for k in ("root prefix", "root both")}
    shapes = []
    for sk, items in skels.items():
        elems = [it for it in items if it[0] in "SEC"]
        for di, dtag in enumerate(elems):
            for dn, d in decls.items():
                for rn, r in roots.items():
                    for st in styles:
                        if tier == "quick" and (hash_small(sk, di, dn, rn, st) % 3) != 0 and sk not in ("child",):
                            continue
                        shape, q = [], 0
                        for it in items:
                            k, idx = it[0], it[1:]
                            if k in "SEC":
                                attrs = []
                                if idx == "0":
                                    attrs += r
                                if it == dtag and not (idx == "0" and any(x[:2] == d[:2] for x in r)):
                                    attrs.append(d)
                                q += 1
                                # observers: a prefixed attribute (fresh symbolic prefix), an unprefixed one, placed before or
                                # after the declarations
                                obs = [("$q%d" % q, "x", "v%d" % q), (None, "y", "w")]
                                attrs = (obs + attrs) if (q + di) % 2 else (attrs + obs)
                                name = ("$n%d" % q, "l%s" % idx) if st == "prefixed" else (None, "l%s" % idx)
                                if k == "C":
                                    name = (name[0], "script")
                                shape.append(S("StartTag" if k == "S" else "EmptyTag", name, attrs))
                            elif k == "X":
                                # the end tag repeats the name of the start tag it closes (9 = an element that is not open)
                                tgt = [x for x in shape if x[0] == "StartTag" and x[1][1] == "l%s" % idx]
                                shape.append(S("EndTag", tgt[0][1] if tgt else (None, "zz")))
                            else:
                                shape.append(S("ShortTag", (None, "")))
                        shapes.append({"name": "%s / %s on element %d / %s / %s names" % (sk, dn, di, rn, st), "shape": shape})
    # literal shapes: fixed prefixes, refused declarations, duplicate expanded names, declaration after use
    XML_URI = "http://www.w3.org/XML/1998/namespace"
    XMLNS_URI = "http://www.w3.org/2000/xmlns/"
    lit = {
        "xml prefix is fixed": [S("StartTag", (None, "a"), [("xml", "lang", "en"), ("xmlns", "xml", "$u0")]), S("EmptyTag", ("xml", "b"), [("xml", "space", "x")]), S("EndTag", (None, "a"))],
        "xml prefix may be declared to the XML namespace": [S("StartTag", (None, "a"), [("xmlns", "xml", XML_URI), ("xml", "lang", "en")]), S("EndTag", (None, "a"))],
        "xmlns prefix cannot be declared": [S("StartTag", (None, "a"), [("xmlns", "xmlns", "$u0"), ("$p0", "x", "v")]), S("EmptyTag", ("xmlns", "b")), S("EndTag", (None, "a"))],
        "XMLNS URI cannot be bound": [S("StartTag", ("$p0", "a"), [("xmlns", "$p1", XMLNS_URI), (None, "xmlns", XMLNS_URI)]), S("EmptyTag", (None, "b"), [("$p2", "x", "v")]), S("EndTag", ("$p0", "a"))],
        "two prefixes, one expanded attribute name": [S("StartTag", (None, "a"), [("xmlns", "$p0", "$u0"), ("xmlns", "$p1", "$u1"), ("$p2", "$l0", "1"), ("$p3", "$l1", "2"), ("$p4", "$l0", "3")]), S("EndTag", (None, "a"))],
        "declaration after use": [S("StartTag", ("$p2", "a"), [("$p3", "x", "1"), ("$p4", "x", "2"), ("xmlns", "$p0", "$u0"), ("xmlns", "$p1", "$u1")]), S("EndTag", ("$p2", "a"))],
        "unprefixed and unbound-prefix attribute with one local name": [S("StartTag", (None, "a"), [(None, "x", "1"), ("$p0", "x", "2"), ("xmlns", "$p1", "$u0")]), S("EndTag", (None, "a"))],
        "shadowing three deep": [S("StartTag", ("$p0", "a"), [("xmlns", "$p0", "$u0")]), S("StartTag", ("$p1", "b"), [("xmlns", "$p1", "$u1")]), S("StartTag", ("$p2", "c"), [("xmlns", "$p2", "$u2"), ("$p0", "x", "1")]),
                                 S("EmptyTag", ("$p3", "d"), [("$p1", "y", "2")]), S("EndTag", ("$p2", "c")), S("EmptyTag", ("$p3", "e")), S("EndTag", ("$p1", "b")), S("EmptyTag", ("$p3", "f")), S("EndTag", ("$p0", "a"))],
        "default namespace three deep": [S("StartTag", (None, "a"), [(None, "xmlns", "$u0")]), S("StartTag", (None, "b"), [(None, "xmlns", "$u1")]), S("StartTag", (None, "c"), [(None, "xmlns", "")]),
                                         S("EmptyTag", (None, "d"), [(None, "x", "1")]), S("EndTag", (None, "c")), S("EmptyTag", (None, "e")), S("EndTag", (None, "b")), S("EmptyTag", (None, "f")), S("EndTag", (None, "a"))],
        "end tag name resolved in scope": [S("StartTag", ("$p0", "a"), [("xmlns", "$p0", "$u0"), ("xmlns", "$p1", "$u1")]), S("StartTag", ("$p2", "a")), S("EndTag", ("$p3", "a")), S("EmptyTag", ("$p4", "b")), S("EndTag", ("$p0", "a")), S("EmptyTag", (None, "c"))],
        "empty script then sibling": [S("StartTag", (None, "r"), [("xmlns", "$p0", "$u0")]), S("EmptyTag", ("$p1", "script"), [("xmlns", "$p2", "$u1"), (None, "xmlns", "$u2")]), S("EmptyTag", ("$p3", "b")), S("EmptyTag", (None, "c")), S("EndTag", (None, "r"))],
        "nested script elements": [S("StartTag", (None, "script"), [("xmlns", "$p0", "$u0")]), S("EmptyTag", ("$p1", "script"), [("xmlns", "$p2", "$u1")]), S("EmptyTag", ("$p3", "b")), S("EndTag", (None, "script")), S("EmptyTag", ("$p3", "c"))],
    }
    for n, sh in lit.items():
        shapes.append({"name": n, "shape": sh})
    return shapes


def hash_small(*xs):
    import zlib
    return zlib.crc32(repr(xs).encode()) + C.seed()


def c16(out, tier):
    from lib import tokchecks as TC
    from mirsym import tok
    import random
    TC_, tok_, prog, mir, ent, exe, exe_rel = xml_setup(out)
    SRC = ["xml5ever/src/tree_builder/mod.rs", "xml5ever/src/tree_builder/types.rs", "markup5ever/interface/mod.rs"]
    out.extra.update({"source_hash": C.src_hash(SRC), "source_files": SRC})
    shapes = c16_shapes(tier)
    # ---- encoder self-validation: concrete instances of the shapes through the interpreted MIR and through the natively
    # built XmlTreeBuilder (RcDom sink) must create the same elements
    rnd = random.Random(4000 + C.seed())
    nval = 60 if tier == "quick" else 300
    picks = [rnd.choice(shapes) for _ in range(nval)]
    conc = []
    for sh in picks:
        atoms = sorted({x for t in sh["shape"] for x in ([t[1][0], t[1][1]] + [y for a in t[2] for y in a]) if isinstance(x, str) and x.startswith("$")})
        letters = "abc" if rnd.random() < 0.7 else "abcdefgh"
        conc.append({"name": sh["name"], "shape": sh["shape"], "concrete": {a: ord(rnd.choice(letters)) for a in atoms}})
    vres = TC.run_units_fn(TC.unit_c16, conc, mir, ent, crate="xml5ever")
    by = {(r["unit"], i): r for i, r in enumerate(vres)}
    bad, nat_vs_oracle = [], []
    dumps = {}
    for r in vres:
        dumps.setdefault(r["unit"], []).append(r)
    for cu in conc:
        nat, case = TC.c16_native_text(exe, cu["shape"], cu["concrete"])
        cands = [r.get("dump") for r in dumps.get("C16 %s" % cu["name"], [])]
        errs = [e for r in dumps.get("C16 %s" % cu["name"], []) for e in r["errors"]]
        if errs:
            bad.append("%s: %s" % (cu["name"], errs[0][-300:]))
        elif nat and nat[0].startswith("EXIT 101") and any(isinstance(x, str) and x.startswith("panic") for x in cands):
            pass                                   # both panic: agreement (the symbolic run reports the panic path)
        elif nat not in cands:
            bad.append("%s %r: native %r, interpreted %r" % (cu["name"], cu["concrete"], nat[:4], cands[:1]))
    out.extra["self_validation"] = {"cases": nval, "mismatches": len(bad), "what": "concrete instances: interpreted MIR of XmlTreeBuilder vs the native build over RcDom"}
    if bad:
        for b in bad[:5]:
            out.inconclusive.append("self-validation: " + b[:600])
        return finish_mc(out, 0, 0, 0, ["self-validation failed"])
    res = TC.run_units_fn(TC.unit_c16, shapes, mir, ent, crate="xml5ever")
    npaths = sum(r["paths"] for r in res)
    obl = sum(r["obligations"] for r in res)
    out.queries += sum(r["queries"] for r in res)
    byname = {s_["name"]: s_ for s_ in shapes}
    seen = set()
    for r in res:
        for e in r["errors"]:
            out.inconclusive.append("%s: %s" % (r["unit"], e[-300:]))
        for v in r["violations"] + [dict(p, shape=p["state"], what=p["what"]) for p in r["panics"]]:
            key = "C16|%s" % v["shape"]
            if key in seen:
                continue
            seen.add(key)
            sh = byname[v["shape"]]["shape"]
            concrete = {k: x for k, x in (v.get("syms") or {}).items()}
            atoms = {x for t in sh for x in ([t[1][0], t[1][1]] + [y for a in t[2] for y in a]) if isinstance(x, str) and x.startswith("$")}
            for a in atoms:
                concrete.setdefault(a, ord("a"))
            nat, case = TC.c16_native_text(exe, sh, concrete)
            nat_rel, _ = TC.c16_native_text(exe_rel, sh, concrete)
            try:
                want = TC.c16_expected_text(sh, concrete)
            except TC.OutOfScope:
                out.inconclusive.append("C16 counter-example for %r is outside the stated scope (duplicate attribute names)" % v["shape"])
                continue
            if nat != want or nat_rel != want:
                out.violation("XML tree builder, %s with %s: created %s but lexical scoping gives %s" % (
                    v["shape"], {k: chr(x) for k, x in sorted(concrete.items())}, nat if nat != want else nat_rel, want),
                    {"engine": "mirsym", "kind": "xmltree", "case": case, "native": nat, "expected": want}, key)
            else:
                out.inconclusive.append("C16 counter-example for %r does not reproduce natively" % v["shape"])
    oos = sum(r.get("out_of_scope", 0) for r in res)
    bounds = ("%d tag sequences (up to 9 tags, nesting depth 3): 12 skeletons of start / empty / end / short tags incl. empty <script/>, an end tag closing two elements, a stray end tag and "
              "content after the root x the element carrying the declaration x {xmlns=u, xmlns='', xmlns:p=u, xmlns:p=''} x root declarations x prefixed / unprefixed element names, plus %d literal shapes "
              "(xml / xmlns prefixes, refused declarations, duplicate expanded attribute names, declaration after use, shadowing three deep); every prefix, URI and varying local name is a symbolic "
              "lower-case letter") % (len(shapes), 13)
    out.units.append({"engine": "mirsym + z3", "what": "XmlTreeBuilder::{new, process_token -> step, process_namespaces, insert_ns, find_uri, bind_qname, bind_attr_qname, close_tag, pop} (interpreted MIR) on tag tokens; "
                      "create_element calls == lexical-scope resolver (in the check)", "bounds": bounds, "work_units": len(res), "paths_explored": npaths, "obligations": obl,
                      "path_conditions_outside_scope": oos})
    out.extra["models_used"] = sorted(set(x for r in res for x in r.get("models_used", [])))
    out.assumptions += M_ASSUME[:1] + [
        "the tree builder is driven with tag tokens directly (the tokenizer's qualified-name split and duplicate-attribute check are not part of this check: C10/C15 cover the tokenizer); "
        "path conditions under which two *unprefixed* attributes of one tag have the same name, or one prefix is declared twice in one tag, are skipped (the tokenizer removes the former; the latter is not well-formed and the property does not say which declaration wins); a repeated *prefixed* name does reach the builder and is in scope",
        "namespace declarations (xmlns, xmlns:p) are namespace information: that the builder removes them from the attribute list is not counted as losing an attribute",
        "BTreeMap / HashSet with symbolic atom keys are modelled as association lists with solver-decided key equality; the sink is a recording model of TreeSink",
        "prefixes and URIs are one-letter atoms (equality structure is what namespace resolution depends on); multi-letter literal atoms only in the literal shapes"]
    return finish_mc(out, npaths, obl, len(shapes), [{"bounds": bounds}])


def c17(out, tier):
    from lib import tokchecks as TC
    from mirsym import tok
    import subprocess
    TC_, tok_, prog, mir, ent, exe, exe_rel = xml_setup(out)
    SRC = ["xml5ever/src/serialize/mod.rs", "xml5ever/src/tree_builder/mod.rs", "xml5ever/src/tokenizer/mod.rs"]
    out.extra.update({"source_hash": C.src_hash(SRC), "source_files": SRC})
    if not xml_self_validate(out, tok, prog, exe, 200 if tier == "quick" else 1000, C.seed() + 7):
        return finish_mc(out, 0, 0, 0, ["self-validation failed"])
    E = lambda p, u, l: {"p": p, "u": u, "l": l}
    kt = 2 if tier == "quick" else 3
    shapes = {
        "plain text": [("start", E(None, None, "a"), []), ("text", kt), ("end", E(None, None, "a"))],
        "prefixed element": [("start", E("p0", "u0", "a"), []), ("end", E("p0", "u0", "a"))],
        "default namespace": [("start", E(None, "u0", "a"), []), ("end", E(None, "u0", "a"))],
        "attribute value": [("start", E(None, None, "a"), [dict(E(None, None, "b"), vk=kt)]), ("end", E(None, None, "a"))],
        "prefixed attribute": [("start", E(None, None, "a"), [dict(E("p1", "u1", "b"), v="v")]), ("end", E(None, None, "a"))],
        "siblings with prefixes": [("start", E(None, None, "r"), []), ("start", E("p0", "u0", "a"), []), ("end", E("p0", "u0", "a")),
                                   ("start", E("p1", "u1", "b"), []), ("end", E("p1", "u1", "b")), ("end", E(None, None, "r"))],
        "nested prefixes (shadowing)": [("start", E("p0", "u0", "a"), []), ("start", E("p1", "u1", "b"), []), ("end", E("p1", "u1", "b")), ("end", E("p0", "u0", "a"))],
        "default namespace then no namespace": [("start", E(None, "u0", "a"), []), ("start", E(None, None, "b"), []), ("end", E(None, None, "b")), ("end", E(None, "u0", "a"))],
        "nested default namespaces": [("start", E(None, "u0", "a"), []), ("start", E(None, "u1", "b"), []), ("end", E(None, "u1", "b")), ("end", E(None, "u0", "a"))],
        "element and attribute prefixes": [("start", E("p0", "u0", "a"), [dict(E("p1", "u1", "b"), v="v")]), ("end", E("p0", "u0", "a"))],
        "two prefixed attributes": [("start", E(None, None, "a"), [dict(E("p0", "u0", "b"), v="v"), dict(E("p1", "u1", "c"), v="w")]), ("end", E(None, None, "a"))],
        "text around a prefixed child": [("start", E(None, None, "a"), []), ("text", 1), ("start", E("p0", "u0", "b"), []), ("end", E("p0", "u0", "b")), ("text", 1), ("end", E(None, None, "a"))],
        "default ns, no-ns child, default-ns grandchild": [("start", E(None, "u0", "a"), []), ("start", E(None, None, "b"), []), ("start", E(None, "u1", "c"), []),
                                                            ("end", E(None, "u1", "c")), ("end", E(None, None, "b")), ("end", E(None, "u0", "a"))],
        "prefixed attribute on nested element": [("start", E("p0", "u0", "a"), []), ("start", E(None, None, "b"), [dict(E("p1", "u1", "c"), vk=1)]), ("end", E(None, None, "b")), ("end", E("p0", "u0", "a"))],
        "three siblings": [("start", E(None, None, "r"), []), ("start", E("p0", "u0", "a"), []), ("end", E("p0", "u0", "a")), ("start", E("p1", "u1", "b"), []), ("end", E("p1", "u1", "b")),
                           ("start", E("p2", "u2", "c"), []), ("end", E("p2", "u2", "c")), ("end", E(None, None, "r"))],
    }
    extra = {"element and attribute prefixes": {"same_prefix_same_uri": [(("p0", "u0"), ("p1", "u1"))]},
             "two prefixed attributes": {"same_prefix_same_uri": [(("p0", "u0"), ("p1", "u1"))]},
             "prefixed attribute on nested element": {"same_prefix_same_uri": [(("p0", "u0"), ("p1", "u1"))]}}
    units = [dict({"name": n, "shape": sh}, **extra.get(n, {})) for n, sh in shapes.items()]
    res = TC.run_units_fn(TC.unit_c17, units, mir, ent, crate="xml5ever")
    npaths = sum(r["paths"] for r in res)
    obl = sum(r["obligations"] for r in res)
    out.queries += sum(r["queries"] for r in res)
    seen = set()
    for r in res:
        for e in r["errors"]:
            out.inconclusive.append("%s: %s" % (r["unit"], e[-300:]))
        for pn in r["panics"]:
            out.inconclusive.append("%s: %s" % (r["unit"], pn["what"][:200]))
        for v in r["violations"]:
            key = "C17|%s" % v["shape"]
            if key in seen:
                continue
            seen.add(key)
            # native replay: the concrete tree through the real XmlSerializer, the output through the real XML parser
            sh = shapes[v["shape"]]
            sy = v["syms"]
            val = lambda x: chr(sy[x]) if x else "-"
            lines, want, nt = ["mode xmlser"], [], 0
            for ei, ev in enumerate(sh):
                if ev[0] == "text":
                    t = bytes(v["texts"]["t%d" % nt]).decode("latin1").encode("utf-8")
                    nt += 1
                    lines.append("ev text " + t.hex())
                    want.append("text " + t.hex())
                else:
                    e_ = ev[1]
                    l_ = "ev %s %s %s %s" % (ev[0], val(e_["p"]), val(e_["u"]), e_["l"])
                    if ev[0] == "start":
                        al = []
                        for ai, a_ in enumerate(ev[2]):
                            tv = bytes(v["texts"]["av%d_%d" % (ei, ai)]).decode("latin1").encode("utf-8")
                            l_ += " %s %s %s %s" % (val(a_["p"]), val(a_["u"]), a_["l"], tv.hex())
                            al.append("{%s}%s=%s" % (chr(sy[a_["u"]]) if a_["u"] else "", a_["l"], tv.hex()))
                        want.append("elem {%s}%s [%s]" % (chr(sy[e_["u"]]) if e_["u"] else "", e_["l"], " ".join(sorted(al))))
                    else:
                        want.append("end")
                    lines.append(l_)
            p_ = subprocess.run([exe], input=("\n".join(lines) + "\n").encode(), stdout=subprocess.PIPE, stderr=subprocess.PIPE, timeout=30)
            got = p_.stdout.decode(errors="replace").splitlines()
            ser = bytes.fromhex(got[0].split()[1]).decode("utf-8", "replace") if got and got[0].startswith("ser ") else "?"
            # adjacent text nodes merge on re-parse; compare with merged expectation
            def merge(xs):
                o = []
                for x in xs:
                    if x.startswith("text ") and o and o[-1].startswith("text "):
                        o[-1] += x[5:]
                    elif x != "text ":
                        o.append(x)
                return o
            if merge(got[1:]) != merge(want):
                out.violation("XML serializer output %r does not parse back to the tree it was given (%s): expected %s, parsed %s" % (ser, v["shape"], merge(want), merge(got[1:])),
                              {"engine": "mirsym", "kind": "xmlser", "case": "\n".join(lines), "native": got, "expected": want}, key)
            else:
                out.inconclusive.append("C17 counter-example for %r does not reproduce natively (%r)" % (v["shape"], ser))
    bounds = ("%d tree shapes (element nesting, siblings, default / prefixed / no namespace, prefixed attributes); prefixes and namespace URIs are symbolic one-letter atoms "
              "(so equal / different prefixes and URIs are solver cases), text and attribute values are %d symbolic ASCII characters (NUL excluded: not reachable by parsing)") % (len(shapes), kt)
    out.units.append({"engine": "mirsym + z3", "what": "XmlSerializer::{new,start_elem,end_elem,write_text} (interpreted MIR) -> output characters -> interpreted XmlTokenizer -> lexical namespace resolution (in the check) == the input tree",
                      "bounds": bounds, "work_units": len(res), "paths_explored": npaths, "obligations": obl})
    out.extra["models_used"] = sorted(set(x for r in res for x in r.get("models_used", [])))
    out.assumptions += M_ASSUME[:1] + ["the tree-builder half of re-parsing (namespace resolution by lexical scope) is done by a 30-line resolver in the check, not by xml5ever's tree builder (C16 is not claimed); the native replay of a counter-example does use the real parser",
                                       "input trees satisfy what a parsed tree satisfies: names in one start tag that share a prefix share the URI; comments, PIs and doctypes are not covered",
                                       "BTreeMap iteration order with symbolic keys is modelled as insertion order (only the order of xmlns declarations depends on it)"]
    return finish_mc(out, npaths, obl, len(shapes), [{"bounds": bounds}])


def c19(out, tier):
    TC, tok, prog, mir, ent, exe, exe_rel = tok_setup(out)
    out.extra["source_files"] = ["html5ever/src/encoding.rs"]
    out.extra["source_hash"] = C.src_hash(["html5ever/src/encoding.rs"])
    q = tier == "quick"
    shapes = [[10 if q else 12], ["charset", 5 if q else 6], [2, "charset", 4 if q else 5], ["charset", 2, "charset", 3 if q else 4], ["CHARSET ", 4 if q else 5],
              ["charset=", 5 if q else 6], ["charset='", 5 if q else 6], ['charset="', 5 if q else 6], ["charset = ", 4 if q else 5], ["charsetcharset", 4],
              [1, "harset=", 3], ["charse", 4], ["text/html; charset=", 4 if q else 5], ["charset", 1, "=", 3, ";", 2], ["x charset \t\n\r\x0c=", 4]]
    units = [{"shape": sh, "cls": 1} for sh in shapes] + [{"shape": sh, "cls": 2} for sh in ([["charset=", 3], [5, "charset=a"]] if q else [["charset=", 4], [6, "charset=a"], ["charset", 4]])]
    res = TC.run_units_fn(TC.unit_c19, units, mir, ent)
    npaths = sum(r["paths"] for r in res)
    obl = sum(r["obligations"] for r in res)
    out.queries += sum(r["queries"] for r in res)
    seen = set()
    for r in res:
        for e in r["errors"]:
            out.inconclusive.append("%s: %s" % (r["unit"], e[-300:]))
        for v in r["violations"] + [dict(p, label="panic", impl="panic") for p in r["panics"]]:
            key = "C19|%s|%s" % (v["label"], "".join(map(chr, v["chars"]))[:40] if v.get("chars") else "?")
            if key in seen or not v.get("chars"):
                continue
            seen.add(key)
            # native confirmation: the extractor is pub(crate); its observable effect is the EncodingIndicator label of
            # <meta http-equiv=content-type content=...>, replayed through the real parser by the replay binary ("meta" mode)
            s_in = "".join(map(chr, v["chars"]))
            # the attribute value goes through input preprocessing on its way to the extractor
            s_in = s_in.replace("\r\n", "\n").replace("\r", "\n").replace("\0", "\ufffd")
            nat = meta_native(exe, s_in)
            from spec import meta_charset_ref as R
            from mirsym.interp import Machine
            ref = R.extract(Machine(None, []), list(s_in.encode("utf-8")))
            refs = None if ref is None else bytes(ref).decode("utf-8", "replace")
            if nat != ("none" if refs is None else "label:" + refs):
                out.violation("meta content %r: extractor gives %s, WHATWG algorithm gives %r" % (s_in, nat, refs),
                              {"engine": "mirsym", "kind": "meta", "content": s_in, "native": nat, "reference": refs}, key)
            else:
                out.inconclusive.append("C19 counter-example %r does not reproduce natively (native %s)" % (s_in, nat))
    out.units.append({"engine": "mirsym + z3", "what": "extract_a_character_encoding_from_a_meta_element (interpreted MIR) vs the WHATWG algorithm, per path",
                      "shapes": [u["shape"] for u in units], "paths_explored": npaths, "obligations": obl})
    out.extra["models_used"] = sorted(set(x for r in res for x in r.get("models_used", [])))
    # part (b): which <meta> start tags make feed() report an indicator, with which label, over the composed parser
    from lib import treechecks as TR
    if tree_self_validate(out, TC, mir, ent, exe, 40 if tier == "quick" else 400, C.seed() + 13):
        tunits = tree_units("C19", tier)
        tres = TC.run_units_fn(TR.unit_meta, tunits, mir, ent)
        tree_finish(out, TR, "C19", tres, exe, exe_rel)
        tp = sum(r["paths"] for r in tres)
        npaths += tp
        obl += sum(r["obligations"] for r in tres)
        out.units.append({"engine": "mirsym + z3", "what": "composed HTML parser (interpreted MIR): the EncodingIndicator results of feed() are, in order, exactly the labels of the inserted HTML meta elements "
                          "with a charset attribute or http-equiv=content-type + content yielding a label (WHATWG extraction, spec/meta_charset_ref.py); the element is attached when reported",
                          "bounds": "%d templates: 15 contexts (head, after head, body, table, select, template, foreign content, frameset, RCDATA ...) x 7 meta variants with symbolic attribute values / names, fragment contexts, a chunk boundary" % len(tunits),
                          "work_units": len(tres), "paths_explored": tp})
    out.assumptions += M_ASSUME[:1] + ["content strings are walked as shapes: concrete pieces interleaved with runs of symbolic bytes (ASCII, and 2-byte UTF-8 characters in separate runs)",
                                       "part (b) is checked on a bounded template list; 'resuming continues as if nothing had happened' is covered only in that the parse after the pause is the ordinary interpreted parse (no comparison with a run without the pause)"]
    return finish_mc(out, npaths, obl, len(units), [{"shapes": [u["shape"] for u in units]}])


def meta_native(exe, content):
    """feed '<meta http-equiv=content-type content=...>' to the real parser (replay binary, meta mode) -> 'none' | 'label:<x>'"""
    import subprocess
    p = subprocess.run([exe], input=("mode meta\ncontent %s\n" % content.encode("utf-8").hex()).encode(), stdout=subprocess.PIPE, stderr=subprocess.PIPE, timeout=30)
    out_ = p.stdout.decode(errors="replace").strip().splitlines()
    return out_[-1] if out_ else "error:" + p.stderr.decode(errors="replace")[-200:]


def snap_ents(snap):
    return None if snap is None else {k_: tuple(v) for k_, v in snap.items()}


def tag_can_complete(st):
    from mirsym import tok
    s = tok.state_spec(st)
    return s.split(":")[0] in ("TagOpen", "TagName", "BeforeAttributeName", "AttributeName", "AfterAttributeName", "BeforeAttributeValue",
                               "AttributeValue", "AfterAttributeValueQuoted", "SelfClosingStartTag", "Data")


def tok_finish_c01(out, TC, tok, prog, results, exe, exe_rel, bounds):
    """violations of C01: re-run the reference concretely on the counter-example and the native tokenizer; report only if they differ"""
    npaths = sum(r["paths"] for r in results)
    out.queries += sum(r["queries"] for r in results)
    obl = sum(r["obligations"] for r in results)
    ents = {n: v for n, v in prog.entities.items() if v != (0, 0)}
    seen = set()
    for r in results:
        for e in r["errors"]:
            out.inconclusive.append("%s: %s" % (r["unit"], e[-300:]))
        for v in r["violations"]:
            key = "C01|spec|%s" % v["state"]
            if key in seen:
                continue
            seen.add(key)
            cfg = TC.mk_cfg(v["base"])
            nat = TC.normalize_native(TC.native_obs(exe, cfg, [v["chars"]]), keep_err=False)
            nat = [b for b, _ in nat]
            ref = tok.raw_text([(t, 0) for t in TC.ref_concrete(v["base"], v["chars"], ents)])
            ref = [l.rpartition(" @")[0] for l in ref]
            if nat != ref:
                out.violation("tokens differ from the WHATWG tokenization algorithm [start state %s, input %r, sink answer %s, last start tag %r]: implementation %s | specification %s" % (
                    v["state"], chs(v["chars"]), v["base"]["on_start"], v["base"]["last_start_tag"], nat[:8], ref[:8]),
                    {"engine": "mirsym", "kind": "spec", "v": {k_: v[k_] for k_ in ("chars", "base", "state")}, "native": nat, "reference": ref}, key)
            else:
                out.inconclusive.append("C01 counter-example does not reproduce (native == reference on %r from %s)" % (v["chars"], v["state"]))
        for pn in r["panics"]:
            out.inconclusive.append("panic path during C01 exploration (reported by C04): %s %s %r" % (pn["what"], pn["state"], pn["chars"]))
    out.extra["slowest_units"] = [(r["unit"], round(r["wall"], 1)) for r in sorted(results, key=lambda r: -r["wall"])[:8]]
    out.units.append({"engine": "mirsym + z3", "what": "implementation (interpreted MIR) vs WHATWG reference tokenizer, per path pair", "bounds": bounds,
                      "work_units": len(results), "paths_explored": npaths, "reference_paths": out.extra.get("ref_paths"), "obligations": obl,
                      "unit_wall_s_total": round(sum(r["wall"] for r in results), 1)})
    out.extra["models_used"] = sorted(set(x for r in results for x in r.get("models_used", [])))
    out.assumptions += M_ASSUME
    return npaths, obl


PROPS = {"C01": c01, "C10": c10, "C16": c16, "C05": c05, "C06": c06, "C18": c18, "C20": c20, "C11": c11, "C12": c12, "C17": c17, "C14": c14, "C15": c15, "C19": c19, "C07": c07, "C13": c13, "C03": c03, "C04": c04, "C08": c08, "C09": c09}


def replay(path):
    with open(path) as f:
        r = json.load(f)
    if r.get("engine") == "kani":
        vals = [[int(h[i:i + 2], 16) for i in range(0, len(h), 2)] for h in r["values"].split(",")] if r["values"] else []
        res = K.native_replay(r["crate"], r["harness"], vals, fill=r.get("fill"))
        print(json.dumps(res, indent=1))
        bad = any(res.get(p) == "fails" for p in ("dev", "release"))
        if not bad and r.get("miri"):
            verdict, msg = K.miri_replay(r["crate"], r["harness"], vals, fill=r.get("fill"))
            print("miri: %s %s" % (verdict, msg))
            bad = verdict == "ub"
        if bad:
            print("VIOLATION property=%s replay=%s" % (r["property"], path))
        return 1 if bad else 0
    if r.get("engine") in ("mirsym", "table"):
        return replay_native(r, path)
    print("unknown replay file")
    return 2


def replay_native(r, path):
    """re-run a stored counter-example against the natively built current tree (dev and release) and re-evaluate the verdict"""
    import subprocess
    from mirsym import build, tok
    from lib import tokchecks as TC
    kind = r.get("kind") or r.get("engine")
    if kind == "table":
        import re
        _, ent, _ = build.dump_mir("html5ever")
        class _P:
            pass
        got = tok.load_entities(_P(), ent).get(r["key"])
        got = list(got) if got is not None else None
        print("generated table entry for %r: %r, expected %r" % (r["key"], got, r["expected"]))
        bad = got != (list(r["expected"]) if r["expected"] is not None else None)
    else:
        exes = {"dev": build.replay_binary("dev"), "release": build.replay_binary("release")}
        bad = False
        for prof, exe in exes.items():
            def run(case):
                return tok.native_run(exe, case)
            if kind == "xmltree":
                nat = run(r["case"])
                b = nat != r["expected"]
            elif kind == "htmldoc":
                from lib import treechecks as TR
                tree, contract, trace, panic, _ = TR.native_doc(exe, r["chars"], r["opts"])
                nat = {"tree": tree[:40], "contract": contract, "trace": trace, "panic": panic}
                if r["prop"] == "C08":
                    t2, _, _, p2, _ = TR.native_doc(exe, r["chars"], dict(r["opts"], **r["variant"]))
                    strip = (lambda ls: [l for l in ls if " doctype " not in l]) if r.get("no_doctype") else (lambda ls: ls)
                    b = strip(tree) != strip(t2) or bool(panic) != bool(p2)
                    nat["variant_tree"] = t2[:40]
                elif r["prop"] == "C19":
                    b = [l for l in tree if l.startswith("indicator ")] != TR.expected_indicators(tree) and not panic
                else:
                    b = {"C04": bool(panic), "C05": bool(contract) or bool(panic and "exit 7" in panic), "C06": bool(TR.skeleton_lines(tree)) and not panic, "C18": bool(trace)}[r["prop"]]
            elif kind == "xmlser":
                def merge(xs):
                    o = []
                    for x in xs:
                        if x.startswith("text ") and o and o[-1].startswith("text "):
                            o[-1] += x[5:]
                        elif x != "text ":
                            o.append(x)
                    return o
                nat = run(r["case"])
                b = merge(nat[1:]) != merge(r["expected"])
            elif kind == "xmlnorm":
                nat = run(r["case"])
                if r.get("where") == "attr":
                    got = None
                    for l in nat:
                        mm = __import__("re").match(r"XTag \w+ \[[^\]]*\] \[[0-9a-f,:]*=([0-9a-f,]*)", l)
                        if mm:
                            got = [int(x, 16) for x in mm.group(1).split(",") if x]
                else:
                    got = []
                    for l in nat:
                        if l.startswith("Chars "):
                            got += [int(x, 16) for x in l[6:].rpartition(" @")[0].split(",") if x]
                b = got != r["expected"]
            elif kind == "line-oracle":
                nat = run(r["case"])
                b = not native_line_check(r["chars"], nat)
            elif kind == "panic":
                nat = run(r["case"])
                b = any(l.startswith("PANIC") or "QUEUE-NOT-EMPTY" in l for l in nat) or sum(1 for l in nat if l.startswith("EOF")) != 1
            elif kind == "diff":
                rep = TC.replay_diff(r["v"], exe, None, r.get("keep_err", True))
                nat = rep
                b = any(x.get("differs") for x in rep.values())
            elif kind == "decode":
                bs = bytes.fromhex(r["bytes"])
                chunks, pos = [], 0
                for l in r["lens"]:
                    chunks.append(bs[pos:pos + l])
                    pos += l
                inp = "mode decode\n" + "".join("bytes %s\n" % bytes(c).hex() for c in chunks)
                p_ = subprocess.run([exe], input=inp.encode(), stdout=subprocess.PIPE, stderr=subprocess.PIPE, timeout=30)
                nat = p_.stdout.decode(errors="replace").strip() if p_.returncode == 0 else "PANIC " + p_.stderr.decode(errors="replace")[-200:]
                b = nat != r["expected"]
            elif kind == "meta":
                nat = meta_native(exe, r["content"])
                b = nat != ("none" if r["reference"] is None else "label:" + r["reference"])
            elif kind == "spec":
                v = r["v"]
                nat = [x for x, _ in TC.normalize_native(TC.native_obs(exe, TC.mk_cfg(v["base"]), [v["chars"]]), keep_err=False)]
                b = nat != r["reference"]
            else:
                print("unknown replay kind %r" % kind)
                return 2
            print("[%s] native: %s" % (prof, json.dumps(nat)[:1500]))
            bad = bad or b
        for k_ in ("expected", "reference"):
            if k_ in r:
                print("%s: %s" % (k_, json.dumps(r[k_])[:1500]))
    print(r.get("what", ""))
    if bad:
        print("VIOLATION property=%s replay=%s" % (r["property"], path))
        return 1
    print("does not reproduce on the current tree")
    return 0


def main():
    ap = argparse.ArgumentParser()
    ap.add_argument("prop", nargs="?")
    ap.add_argument("--tier", default=os.environ.get("VERIF_TIER", "quick"), choices=["quick", "thorough"])
    ap.add_argument("--replay")
    a = ap.parse_args()
    if a.replay:
        sys.exit(replay(a.replay))
    if a.prop not in PROPS:
        print("unknown property", a.prop, "known:", sorted(PROPS))
        sys.exit(2)
    out = C.Outcome(a.prop, a.tier)
    sys.exit(PROPS[a.prop](out, a.tier))


if __name__ == "__main__":
    main()
