#!/usr/bin/env python3
"""Entry point: run.py <PROPERTY> [--tier quick|thorough] | --replay <file>

exit 0 = the property held for every value inside the stated bounds
exit 1 = a violation that reproduced natively (line: VIOLATION property=<id> replay=<path>)
exit 2 = inconclusive (timeout, OOM, unsupported construct, non-reproducing counter-example)
"""
import sys, os, json, argparse, subprocess

sys.path.insert(0, os.path.dirname(os.path.abspath(__file__)))
from lib import common as C
from lib import kani_engine as K
from lib.kani_engine import H

SER_SRC = ["html5ever/src/serialize/mod.rs", "markup5ever/serialize.rs"]


def c07(out, tier):
    hs = [
        H("c07a_text_escape_4", 600, "write_text under an ordinary parent == WHATWG 'escaping a string' (text mode)",
          "every well-formed UTF-8 text of <= 4 bytes"),
        H("c07a_attr_escape_4", 600, "start_elem attribute value == WHATWG 'escaping a string' (attribute mode)",
          "every well-formed UTF-8 value of <= 4 bytes"),
    ]
    names = ["style", "script", "xmp", "iframe", "noembed", "noframes", "plaintext", "noscript", "br", "div", "title", "p"]
    quick_names = ["script", "noscript", "style", "plaintext", "br", "div"]
    IO = ("outer serialisation == '<name>' + ChildrenOnly(Some(name)) serialisation + '</name>' == reference; "
          "text raw iff the parent is an HTML raw-text element")
    for n in names:
        if tier == "thorough" or n in quick_names:
            hs.append(H("c07c_io2_" + n, 1200, IO,
                        "parent local name '%s' x namespace in {html,svg,mathml,xml} x scripting flag x text <= 2 bytes, children = text + <b>text</b>" % n))
    if tier == "thorough":
        hs += [
            H("c07a_text_escape_6", 3000, "as c07a_text_escape_4", "every well-formed UTF-8 text of <= 6 bytes"),
            H("c07a_attr_escape_6", 3000, "as c07a_attr_escape_4", "every well-formed UTF-8 value of <= 6 bytes"),
        ]
        for n in names:
            hs.append(H("c07c_io3_" + n, 3600, IO, "as c07c_io2_%s with text <= 3 bytes" % n))
    K.run_all(out, "ser", hs, SER_SRC)
    out.assumptions += [
        "instantiation HtmlSerializer<ArrW>: ArrW is an infallible io::Write keeping the output as a 512-bit shift register",
        "memchr::memchr2/memchr3 replaced by their documented contract (first index of a needle)",
        "alloc::fmt::format stubbed (log messages are not the subject); parking_lot slow paths stubbed (single thread)",
        "escape_ref = WHATWG HTML 13.3 'escaping a string' incl. '<' '>' in attribute mode",
        "outside the bound: longer texts (argued by induction: every escaped unit is self-delimiting), the re-parse half (needs C01/C02)",
    ]
    return out.finish("model_checking", {
        "evaluations": out.queries,
        "distinct_nontrivial": len([u for u in out.units if u["verdict"] == "SUCCESSFUL"]),
        "rule": "one evaluation = one SAT query discharged by CBMC for a harness; distinct_nontrivial = harnesses whose verdict is SUCCESSFUL and whose reachability witnesses (kani::cover) were satisfied",
        "functions_encoded": ["HtmlSerializer::new", "HtmlSerializer::write_escaped", "Serializer::write_text",
                              "Serializer::start_elem", "Serializer::end_elem", "HtmlSerializer::parent", "tagname"],
    })


BQ_SRC = ["markup5ever/util/buffer_queue.rs", "markup5ever/util/smallcharset.rs", "tendril/src/tendril.rs"]


def c13(out, tier):
    D = {
        "next_peek": ("peek/next return the first character of the concatenation; next consumes exactly it", "next, peek, push_back, pop_front"),
        "pop_except": ("pop_except_from returns one set member or the maximal non-empty non-member run of the first buffer", "pop_except_from, SmallCharSet::nonmember_prefix_len"),
        "eat_eq": ("eat(pat, ==) answers true/false/None exactly as a prefix comparison of the concatenation; consumes only on a match", "eat"),
        "eat_ci": ("eat(pat, eq_ignore_ascii_case) likewise", "eat"),
        "push_front": ("push_front after 0..2 consumed characters re-inserts text ahead of everything unread", "push_front, next, peek"),
        "pop_then_eat": ("pop_except_from followed by eat (front buffer partially consumed) still behaves as on the flat string", "pop_except_from, eat"),
    }
    hs = []
    for k, (d, fns) in D.items():
        hs.append(H("c13_%s_q" % k, 900, d, "3 pushed buffers, 3-4 concrete length shapes of <= 3 bytes each (empty buffers included), all well-formed UTF-8 contents, all 2^64 character sets, all ASCII patterns of 2-3 bytes"))
        if tier == "thorough":
            hs.append(H("c13_%s_t" % k, 3600, d, "3 pushed buffers, 4-6 concrete length shapes of <= 4 bytes each, all contents / sets / patterns of 4 bytes"))
    K.run_all(out, "bq", hs, BQ_SRC)
    out.assumptions += [
        "buffer lengths are walked concretely (shape lists in kani/bq/src/proofs.rs); contents, sets, patterns, consumed prefix are symbolic",
        "buffers are inline tendrils (<= 8 bytes); heap/shared tendril representations are C11's subject",
        "after each operation the queue is drained with pop_front and compared with the flat model (no byte lost, duplicated, reordered; no empty buffer stored)",
        "alloc::fmt::format stubbed", "the queue is mem::forget-ed at the end (drop glue of VecDeque<Tendril> is C12's subject)",
        "outside the bound: more than 3 buffers, buffers longer than 4 bytes, patterns that are not ASCII, sequences of more than 2 operations",
    ]
    return out.finish("model_checking", {
        "evaluations": out.queries,
        "distinct_nontrivial": len([u for u in out.units if u["verdict"] == "SUCCESSFUL"]),
        "rule": "one evaluation = one SAT query discharged by CBMC; distinct_nontrivial = harnesses with verdict SUCCESSFUL and all reachability witnesses satisfied",
        "functions_encoded": ["BufferQueue::{default,push_back,push_front,pop_front,peek,next,pop_except_from,eat,is_empty}",
                              "SmallCharSet::{contains,nonmember_prefix_len}", "Tendril::{from_slice,pop_front_char,unsafe_subtendril,unsafe_pop_front,pop_front,len32,as_bytes}"],
    })


PROPS = {"C07": c07, "C13": c13}


def replay(path):
    with open(path) as f:
        r = json.load(f)
    if r.get("engine") == "kani":
        vals = [[int(h[i:i + 2], 16) for i in range(0, len(h), 2)] for h in r["values"].split(",")] if r["values"] else []
        res = K.native_replay(r["crate"], r["harness"], vals)
        print(json.dumps(res, indent=1))
        bad = any(res.get(p) == "fails" for p in ("dev", "release"))
        if bad:
            print("VIOLATION property=%s replay=%s" % (r["property"], path))
        return 1 if bad else 0
    if r.get("engine") == "mirsym":
        from lib import tok_replay
        return tok_replay.replay_case(r, path)
    print("unknown replay file")
    return 2


def main():
    ap = argparse.ArgumentParser()
    ap.add_argument("prop", nargs="?")
    ap.add_argument("--tier", default=os.environ.get("VERIF_TIER", "quick"), choices=["quick", "thorough"])
    ap.add_argument("--replay")
    a = ap.parse_args()
    if a.replay:
        sys.exit(replay(a.replay))
    if a.prop not in PROPS:
        print("unknown property", a.prop, "known:", sorted(PROPS))
        sys.exit(2)
    out = C.Outcome(a.prop, a.tier)
    sys.exit(PROPS[a.prop](out, a.tier))


if __name__ == "__main__":
    main()
