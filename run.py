#!/usr/bin/env python3
"""Entry point: run.py <PROPERTY> [--tier quick|thorough] | --replay <file>

exit 0 = the property held for every value inside the stated bounds
exit 1 = a violation that reproduced natively (line: VIOLATION property=<id> replay=<path>)
exit 2 = inconclusive (timeout, OOM, unsupported construct, non-reproducing counter-example)
"""
import sys, os, json, argparse, subprocess

sys.path.insert(0, os.path.dirname(os.path.abspath(__file__)))
from lib import common as C
from lib import kani_engine as K
from lib.kani_engine import H

SER_SRC = ["html5ever/src/serialize/mod.rs", "markup5ever/serialize.rs"]


def c07(out, tier):
    hs = [
        H("c07a_text_escape_4", 600, "write_text under an ordinary parent == WHATWG 'escaping a string' (text mode)",
          "every well-formed UTF-8 text of <= 4 bytes"),
        H("c07a_attr_escape_4", 600, "start_elem attribute value == WHATWG 'escaping a string' (attribute mode)",
          "every well-formed UTF-8 value of <= 4 bytes"),
        H("c07c_inner_outer_2", 900,
          "outer serialisation == '<name>' + ChildrenOnly(Some(name)) serialisation + '</name>'; text raw iff HTML raw-text parent",
          "name in 4 namespaces x 12 local names (all raw-text names, noscript, void, ordinary), scripting flag, text <= 2 bytes, one child element"),
    ]
    if tier == "thorough":
        hs += [
            H("c07a_text_escape_6", 3000, "as c07a_text_escape_4", "every well-formed UTF-8 text of <= 6 bytes"),
            H("c07a_attr_escape_6", 3000, "as c07a_attr_escape_4", "every well-formed UTF-8 value of <= 6 bytes"),
            H("c07c_inner_outer_3", 3000, "as c07c_inner_outer_2", "as c07c_inner_outer_2 with text <= 3 bytes"),
        ]
    K.run_all(out, "ser", hs, SER_SRC)
    out.assumptions += [
        "instantiation HtmlSerializer<ArrW>: ArrW is an infallible io::Write keeping the output as a 512-bit shift register",
        "memchr::memchr2/memchr3 replaced by their documented contract (first index of a needle)",
        "alloc::fmt::format stubbed (log messages are not the subject); parking_lot slow paths stubbed (single thread)",
        "escape_ref = WHATWG HTML 13.3 'escaping a string' incl. '<' '>' in attribute mode",
        "outside the bound: longer texts (argued by induction: every escaped unit is self-delimiting), the re-parse half (needs C01/C02)",
    ]
    return out.finish("model_checking", {
        "evaluations": out.queries,
        "distinct_nontrivial": len([u for u in out.units if u["verdict"] == "SUCCESSFUL"]),
        "rule": "one evaluation = one SAT query discharged by CBMC for a harness; distinct_nontrivial = harnesses whose verdict is SUCCESSFUL and whose reachability witnesses (kani::cover) were satisfied",
        "functions_encoded": ["HtmlSerializer::new", "HtmlSerializer::write_escaped", "Serializer::write_text",
                              "Serializer::start_elem", "Serializer::end_elem", "HtmlSerializer::parent", "tagname"],
    })


PROPS = {"C07": c07}


def replay(path):
    with open(path) as f:
        r = json.load(f)
    if r.get("engine") == "kani":
        vals = [[int(h[i:i + 2], 16) for i in range(0, len(h), 2)] for h in r["values"].split(",")] if r["values"] else []
        res = K.native_replay(r["crate"], r["harness"], vals)
        print(json.dumps(res, indent=1))
        bad = any(res.get(p) == "fails" for p in ("dev", "release"))
        if bad:
            print("VIOLATION property=%s replay=%s" % (r["property"], path))
        return 1 if bad else 0
    if r.get("engine") == "mirsym":
        from lib import tok_replay
        return tok_replay.replay_case(r, path)
    print("unknown replay file")
    return 2


def main():
    ap = argparse.ArgumentParser()
    ap.add_argument("prop", nargs="?")
    ap.add_argument("--tier", default=os.environ.get("VERIF_TIER", "quick"), choices=["quick", "thorough"])
    ap.add_argument("--replay")
    a = ap.parse_args()
    if a.replay:
        sys.exit(replay(a.replay))
    if a.prop not in PROPS:
        print("unknown property", a.prop, "known:", sorted(PROPS))
        sys.exit(2)
    out = C.Outcome(a.prop, a.tier)
    sys.exit(PROPS[a.prop](out, a.tier))


if __name__ == "__main__":
    main()
