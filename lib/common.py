"""Shared plumbing: evidence files, known findings, exit codes, scratch dirs."""
import re, json, os, sys, time, hashlib, subprocess, tempfile, shutil

VERIF = os.path.dirname(os.path.dirname(os.path.abspath(__file__)))
REPO = os.environ.get("VERIF_REPO", "/repo")
# checks against an alternative tree (seeded-mutant evaluation in a scratch worktree) keep their build output apart
CACHE = os.path.join(VERIF, ".cache") if REPO == "/repo" else os.path.join(VERIF, ".cache", "alt-" + hashlib.sha1(REPO.encode()).hexdigest()[:8])


_CRATE_DIRS = {}


def crate_dir(sub):
    """directory of a harness crate under /verif (kani/<x> or replay); for an alternative tree a copy whose path
    dependencies point at that tree"""
    src = os.path.join(VERIF, sub)
    if REPO == "/repo":
        return src
    if sub in _CRATE_DIRS:
        return _CRATE_DIRS[sub]
    dst = os.path.join(CACHE, "src", sub)
    _CRATE_DIRS[sub] = dst
    os.makedirs(os.path.dirname(dst), exist_ok=True)
    if os.path.exists(dst):
        shutil.rmtree(dst)
    shutil.copytree(src, dst, ignore=shutil.ignore_patterns("target"))
    for root, _, files in os.walk(dst):
        for f in files:
            if f in ("Cargo.toml",):
                fp = os.path.join(root, f)
                t = open(fp).read().replace('"/repo/', '"%s/' % REPO)
                open(fp, "w").write(t)
    # the shared helper sources are referenced by relative path
    if sub.startswith("kani/"):
        cdst = os.path.join(CACHE, "src", "kani", "common")
        if os.path.exists(cdst):
            shutil.rmtree(cdst)
        shutil.copytree(os.path.join(VERIF, "kani", "common"), cdst)
    return dst
EVID = os.path.join(VERIF, "evidence") if os.environ.get("VERIF_REPO", "/repo") == "/repo" else os.path.join(VERIF, ".cache", "alt-evidence")
REPLAYS = os.path.join(EVID, "replays")

EXIT_OK, EXIT_VIOLATION, EXIT_INCONCLUSIVE = 0, 1, 2

OFFLINE_ENV = {"CARGO_NET_OFFLINE": "true", "GOPROXY": "off", "PIP_NO_INDEX": "1"}


def env(**kw):
    e = dict(os.environ)
    e.update(OFFLINE_ENV)
    e.update({k: str(v) for k, v in kw.items()})
    return e


def seed():
    try:
        return int(os.environ.get("VERIF_SEED", "0"))
    except ValueError:
        return 0


def src_hash(paths):
    h = hashlib.sha256()
    for p in sorted(paths):
        fp = p if os.path.isabs(p) else os.path.join(REPO, p)
        try:
            with open(fp, "rb") as f:
                h.update(p.encode() + b"\0" + f.read())
        except OSError:
            h.update(p.encode() + b"\0<missing>")
    return h.hexdigest()[:16]


def known_findings():
    p = os.path.join(VERIF, "known_findings.json")
    try:
        with open(p) as f:
            return json.load(f)
    except FileNotFoundError:
        return {"findings": [], "fixed": []}


class Outcome:
    """Accumulates the verdicts of the sub-checks of one property run."""

    def __init__(self, prop, tier):
        self.prop, self.tier = prop, tier
        self.t0 = time.time()
        self.violations = []      # dicts: {what, replay, key}
        self.known = []           # dicts matched against known_findings.json
        self.inconclusive = []    # strings
        self.units = []           # per sub-check records for the evidence file
        self.samples = []
        self.assumptions = []
        self.extra = {}
        self.queries = 0
        self.solver_s = 0.0
        # replay files of earlier runs of this property are stale by definition
        import glob
        for old in glob.glob(os.path.join(REPLAYS, prop + "-*.json")):
            try:
                os.remove(old)
            except OSError:
                pass

    def violation(self, what, replay_obj, key):
        """key: stable identity of the failing case (matched against known findings)."""
        kf = known_findings()
        for f in kf.get("findings", []):
            if f.get("property") == self.prop and (f.get("key") == key or (f.get("key_regex") and re.fullmatch(f["key_regex"], key, re.S))):
                self.known.append({"what": f.get("what", what), "key": key})
                return
        os.makedirs(REPLAYS, exist_ok=True)
        path = os.path.join(REPLAYS, "%s-%s.json" % (self.prop, hashlib.sha1(key.encode()).hexdigest()[:10]))
        replay_obj = dict(replay_obj)
        replay_obj.update({"property": self.prop, "what": what, "key": key})
        with open(path, "w") as f:
            json.dump(replay_obj, f, indent=1)
        self.violations.append({"what": what, "replay": path, "key": key})

    def finish(self, level, coverage, level_note=None):
        wall = time.time() - self.t0
        cov = dict(coverage)
        cov.setdefault("samples", self.samples[:12] or ["<none>"])
        cov["units"] = self.units
        cov["queries_discharged"] = self.queries
        cov["solver_time_s"] = round(self.solver_s, 2)
        cov["inconclusive"] = self.inconclusive
        cov["known_findings_matched"] = self.known
        cov.update(self.extra)
        ev = {
            "property_id": self.prop,
            "tier": self.tier,
            "seed": seed(),
            "level": level,
            "coverage": cov,
            "assumptions": self.assumptions,
            "wall_s": round(wall, 2),
            "violations": len(self.violations),
        }
        os.makedirs(EVID, exist_ok=True)
        with open(os.path.join(EVID, self.prop + ".json"), "w") as f:
            json.dump(ev, f, indent=1, sort_keys=False)
        for w in sorted({k["what"] for k in self.known}):       # one line per listed finding, however many cases matched it
            print("KNOWN-FINDING: property=%s %s" % (self.prop, w))
        for v in self.violations:
            print("VIOLATION property=%s replay=%s" % (self.prop, v["replay"]))
            print("  " + v["what"])
        if self.violations:
            return EXIT_VIOLATION
        if self.inconclusive:
            for i in self.inconclusive:
                print("INCONCLUSIVE property=%s %s" % (self.prop, i))
            return EXIT_INCONCLUSIVE
        print("OK property=%s tier=%s units=%d queries=%d wall=%.0fs" % (
            self.prop, self.tier, len(self.units), self.queries, wall))
        return EXIT_OK


def scratch(prefix):
    d = tempfile.mkdtemp(prefix="verif-%s-" % prefix)
    return d


def rm(d):
    shutil.rmtree(d, ignore_errors=True)
