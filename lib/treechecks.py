"""Checks over the HTML parser (tokenizer + tree builder, both interpreted from MIR, composed as html5ever::driver does) on
documents with symbolic holes: C05 (TreeSink calling contract), C06 (document skeleton), C18 (trace_handles), and the
parser half of C04 (totality).  One exploration serves all four; each property reads its own verdicts."""
import time, traceback, z3
from . import tokchecks as TC
from mirsym import models as MD, tok, domsink, htmltree
from mirsym.interp import Machine, PathEnd, Panic, is_sym
from mirsym.mirparse import Unsupported

HTML = "http://www.w3.org/1999/xhtml"
WS = (0x20, 0x09, 0x0A, 0x0C, 0x0D)


def build_input(shape):
    """shape: list of items: str (literal) | int k (k symbolic ASCII characters) | ("name", k) (k symbolic lower-case
    letters: a tag or attribute name) | ("ws", k) (k symbolic characters from {space, tab, LF, FF, 'x'}) -> chars, constraints"""
    chars, cons, n = [], [], 0
    for it in shape:
        if isinstance(it, str):
            chars += [ord(c) for c in it]
            continue
        kind, k = ("any", it) if isinstance(it, int) else it
        for _ in range(k):
            name = "h%d" % n
            n += 1
            v = z3.BitVec(name, 32)
            MD.CHAR_CLASS[name] = 1
            if kind == "name":
                cons.append(z3.And(z3.UGE(v, 0x61), z3.ULE(v, 0x7A)))
            elif kind == "ws":
                cons.append(z3.Or(v == 0x20, v == 0x09, v == 0x0A, v == 0x0C, v == 0x78))
            else:
                cons.append(z3.And(z3.ULE(v, 0x7F), v != 0x0D))      # CR is normalised away before the tree builder; keep paths fewer
            chars.append(v)
    return chars, cons


def concretize(chars, mo):
    return [c if isinstance(c, int) else mo.eval(c, model_completion=True).as_long() for c in chars]


def elem_is(nd, local, ns=HTML):
    if nd["kind"] != "element":
        return False
    q = nd["name"]
    return MD.seq_eq(q.f[1].ch, [ord(c) for c in ns]) is True and MD.seq_eq(q.f[2].ch, [ord(c) for c in local]) is True


def skeleton(st, pc):
    """C06 on the model DOM of one path -> list of (message, extra z3 condition or None)"""
    out = []
    N = st["nodes"]
    kids = N[0]["children"]
    kinds = [N[k]["kind"] for k in kids]
    if kinds.count("doctype") > 1:
        out.append(("the document has %d doctypes" % kinds.count("doctype"), None))
    if "doctype" in kinds and any(x != "comment" for x in kinds[:kinds.index("doctype")]):
        out.append(("the doctype is preceded by a %s" % [x for x in kinds[:kinds.index("doctype")] if x != "comment"][0], None))
    if "text" in kinds:
        out.append(("a text node is a child of the document", None))
    elems = [k for k in kids if N[k]["kind"] == "element"]
    if len(elems) != 1 or not elem_is(N[elems[0]], "html"):
        out.append(("the document's element children are %s, not exactly one html" % [domsink.describe(st, k) for k in elems], None))
        return out
    html = N[elems[0]]
    ek = [k for k in html["children"] if N[k]["kind"] == "element"]
    names = []
    for k in ek:
        q = N[k]["name"]
        names.append(("" if MD.seq_eq(q.f[1].ch, [ord(c) for c in HTML]) is True else "{foreign}") + "".join(chr(c) if isinstance(c, int) else "?" for c in q.f[2].ch))
    ok = names[:2] in (["head", "body"], ["head", "frameset"]) and (
        (names[1] == "body" and len(names) == 2) or (names[1] == "frameset" and all(x == "noframes" for x in names[2:])))
    if not ok:
        out.append(("html's element children are %s" % names, None))
    for k in html["children"]:
        if N[k]["kind"] == "text":
            for c in N[k]["text"]:
                if isinstance(c, int):
                    if c not in WS:
                        out.append(("non-whitespace text %r is a child of html" % chr(c), None))
                        break
                else:
                    out.append(("non-whitespace text is a child of html", z3.And(*[c != w for w in WS])))
                    break
    for h, nd in N.items():
        prev_text = False
        for k in nd["children"]:
            t = N[k]["kind"] == "text"
            if t and prev_text:
                out.append(("two text nodes are adjacent siblings under %s" % domsink.describe(st, h), None))
            if t and len(N[k]["text"]) == 0:
                out.append(("an empty text node under %s" % domsink.describe(st, h), None))
            prev_text = t
        if nd["children"] and nd["kind"] not in ("document", "element", "fragment"):
            out.append(("a %s node has children" % nd["kind"], None))
    return out


def trace_check(st, m):
    """C18: every pause recorded (kind, traced handles, next handle at that time, index into calls, connectivity snapshot)"""
    out = []
    for p in m.notes.get("pauses_full", []):
        allowed, created_before, call_idx, kind = p["closure"], p["next"], p["calls"], p["kind"]
        for c in st["calls"][call_idx:]:
            for h in call_handles(c):
                if h < created_before and h not in allowed and h != 0:
                    out.append("after the pause (%s, %d sink calls in) the tree builder passes %s to %s, a node created before the pause that trace_handles did not report "
                               "and that was not connected to a reported node" % (kind, call_idx, domsink.describe(st, h), c[0]))
                    break
            else:
                continue
            break
    return out


def call_handles(c):
    name = c[0]
    if name in ("create_element", "create_comment", "create_pi", "parse_error", "append_doctype_to_document", "set_quirks_mode"):
        return []
    return [x for x in c[1:] if isinstance(x, int) and not isinstance(x, bool)]


def closure(st, handles):
    """handles plus everything connected to them in the DOM (same tree, template contents included)"""
    N = st["nodes"]
    seen, work = set(), list(handles)
    while work:
        h = work.pop()
        if h in seen or h not in N:
            continue
        seen.add(h)
        nd = N[h]
        for x in [nd["parent"], nd["template"], nd["of_template"]] + list(nd["children"]):
            if x is not None:
                work.append(x)
    return seen


def pause_hook(m, kind, traced):
    st = domsink.state(m)
    if traced is None:
        return
    m.notes.setdefault("pauses_full", []).append({"kind": kind, "closure": closure(st, traced), "next": st["next"], "calls": len(st["calls"])})


htmltree.PAUSE_HOOK = pause_hook


_RC_MIR = None


def ensure_rc(mir):
    """load the MIR of markup5ever_rcdom into this worker (once)"""
    global _RC_MIR
    from mirsym import rcdomtee
    from mirsym.program import Program
    if mir and _RC_MIR != mir:
        rcdomtee.PROG_RC = Program(mir, C_REPO(), "rcdom", MD.M)
        _RC_MIR = mir


def C_REPO():
    from lib import common
    return common.REPO


def unit_tree(args):
    """args: name, shape, opts (dict for htmltree.Opts), max_paths"""
    t0 = time.time()
    if args.get("rc_mir"):
        ensure_rc(args["rc_mir"])
    res = {"unit": "tree %s" % args["name"], "name": args["name"], "paths": 0, "queries": 0, "obligations": 0, "errors": [], "steps": 0,
           "C04": [], "C05": [], "C06": [], "C18": [], "C20": [], "budget_hit": False}
    try:
        chars, cons = build_input(args["shape"])
        o = args.get("opts", {})
        work = [[]]
        maxp = args.get("max_paths", 4000)
        seen_msgs = {"C04": set(), "C05": set(), "C06": set(), "C18": set(), "C20": set()}
        while work:
            d = work.pop()
            m = Machine(TC._PROG, d)
            m.max_steps = max(m.max_steps, 3000000)
            for c in cons:
                m.assume(c)
            outcome, st = "ok", None
            try:
                opts = htmltree.Opts(**{k: (tuple(v) if k == "context" and v else v) for k, v in o.items()})
                st = htmltree.run(m, chars, opts)
            except Panic as e:
                outcome = "panic: " + e.msg
                st = m.notes.get("tree")
            except PathEnd:
                work.extend(m.pending)
                res["queries"] += m.nqueries
                continue
            work.extend(m.pending)
            res["paths"] += 1
            res["queries"] += m.nqueries
            res["steps"] += m.steps
            if res["paths"] > maxp:
                res["budget_hit"] = True
                break
            pc = list(cons) + list(m.pc)

            def witness(extra=None):
                rr, mo = TC.model_of(pc, [extra] if extra is not None else [])
                res["queries"] += 1
                if rr != z3.sat:
                    return rr, None
                return rr, concretize(chars, mo)

            def report(prop, msg, extra=None):
                key = msg[:60]
                if key in seen_msgs[prop]:
                    return
                rr, w = witness(extra)
                if rr == z3.unsat:
                    return
                seen_msgs[prop].add(key)
                if w is None:
                    res["errors"].append("solver unknown for a %s witness" % prop)
                    return
                oo = dict(o)
                if m.notes.get("detached"):
                    oo.pop("script_detach", None)
                    oo["detach_plan"] = [list(x) for x in m.notes["detached"]]
                res[prop].append({"what": msg, "chars": w, "opts": oo, "name": args["name"]})
            if outcome != "ok":
                if "TreeSink contract" in outcome:
                    report("C05", outcome[7:])
                else:
                    report("C04", outcome)
                continue
            res["obligations"] += 3
            for msg in st["contract"]:
                report("C05", msg)
            if not o.get("context"):
                for msg, extra in skeleton(st, pc):
                    report("C06", msg, extra)
            for msg in trace_check(st, m):
                report("C18", msg)
            if o.get("rcdom"):
                from mirsym import rcdomtee
                for msg, extra in rcdomtee.compare(m):
                    report("C20", msg, extra)
    except Unsupported as e:
        res["errors"].append("unsupported: " + str(e)[:300])
    except Exception:
        res["errors"].append("exception: " + traceback.format_exc()[-900:])
    res["wall"] = time.time() - t0
    res["models_used"] = sorted(MD.USED)[:0]
    return res


# ---------------------------------------------------------------- native confirmation (replay binary, htmldoc mode)
def native_doc(exe, chars, opts):
    """-> (tree lines, contract lines, trace lines, panic message or None, case text)"""
    import subprocess
    doc = "".join(chr(c) for c in chars)
    lines = ["mode htmldoc", "scripting %d" % (1 if opts.get("scripting", True) else 0), "srcdoc %d" % (1 if opts.get("iframe_srcdoc") else 0),
             "quirks " + opts.get("quirks", "NoQuirks"), "tbexact %d" % (1 if opts.get("exact_errors") else 0), "dropdoctype %d" % (1 if opts.get("drop_doctype") else 0)]
    if opts.get("context"):
        lines += ["context %s %s" % (opts["context"][0].encode().hex(), opts["context"][1].encode().hex()),
                  "ctxscripting %d" % (1 if opts.get("ctx_scripting", True) else 0)]
        for k, v in opts.get("context_attrs", ()):
            lines.append("cattr %s %s" % (k.encode().hex(), v.encode().hex()))
        if opts.get("form"):
            lines.append("form 1")
    for (pk, ei) in (opts.get("detach_plan") or []):
        lines.append("detach %d %d" % (pk, ei))
    pos = 0
    for n in (opts.get("chunks") or [len(doc)]):
        lines.append("hchunk " + doc[pos:pos + n].encode("utf-8").hex())
        pos += n
    case = "\n".join(lines) + "\n"
    p = subprocess.run([exe], input=case.encode(), stdout=subprocess.PIPE, stderr=subprocess.PIPE, timeout=60)
    out = p.stdout.decode(errors="replace").splitlines()
    panic = None
    if p.returncode != 0:
        err = p.stderr.decode(errors="replace").splitlines()
        panic = "exit %d: %s" % (p.returncode, " ".join(l.strip() for i, l in enumerate(err) if "panicked at" in l or (i > 0 and "panicked at" in err[i - 1]))[:300])
    tree = [l for l in out if l[:1].isdigit() or l.startswith("quirks ") or l.startswith("indicator ")]
    return tree, [l[9:] for l in out if l.startswith("contract ")], [l[6:] for l in out if l.startswith("trace ")], panic, case


def skeleton_lines(lines):
    """C06 on the canonical dump of the native RcDom"""
    unhex = lambda h: bytes.fromhex(h).decode("utf-8", "replace")
    nodes = []          # (depth, kind, detail)
    for l in lines:
        if not l[:1].isdigit():
            continue
        f = l.split(" ")
        d, kind = int(f[0]), f[1]
        if kind == "elem":
            ns, local = f[2].split(":")
            nodes.append((d, "element", (unhex(ns), unhex(local))))
        elif kind == "text":
            nodes.append((d, "text", unhex(f[2]) if len(f) > 2 else ""))
        else:
            nodes.append((d, kind, None))
    out = []

    def children(i):
        d = nodes[i][0]
        res = []
        for j in range(i + 1, len(nodes)):
            if nodes[j][0] <= d:
                break
            if nodes[j][0] == d + 1:
                res.append(j)
        return res
    if not nodes:
        return ["no tree"]
    kids = children(0)
    kinds = [nodes[k][1] for k in kids]
    if kinds.count("doctype") > 1:
        out.append("the document has %d doctypes" % kinds.count("doctype"))
    if "doctype" in kinds and any(x != "comment" for x in kinds[:kinds.index("doctype")]):
        out.append("the doctype is preceded by a non-comment")
    if "text" in kinds:
        out.append("a text node is a child of the document")
    elems = [k for k in kids if nodes[k][1] == "element"]
    if len(elems) != 1 or nodes[elems[0]][2] != (HTML, "html"):
        out.append("the document's element children are %s, not exactly one html" % [nodes[k][2][1] for k in elems])
    else:
        hk = children(elems[0])
        names = [("" if nodes[k][2][0] == HTML else "{foreign}") + nodes[k][2][1] for k in hk if nodes[k][1] == "element"]
        ok = names[:2] in (["head", "body"], ["head", "frameset"]) and (
            (names[1] == "body" and len(names) == 2) or (names[1] == "frameset" and all(x == "noframes" for x in names[2:])))
        if not ok:
            out.append("html's element children are %s" % names)
        for k in hk:
            if nodes[k][1] == "text" and any(ord(c) not in WS for c in nodes[k][2]):
                out.append("non-whitespace text is a child of html")
    for i in range(len(nodes)):
        prev = False
        ks = children(i)
        for k in ks:
            t = nodes[k][1] == "text"
            if t and prev:
                out.append("two text nodes are adjacent siblings")
            if t and nodes[k][2] == "":
                out.append("an empty text node")
            prev = t
        if ks and nodes[i][1] not in ("document", "element", "content"):
            out.append("a %s node has children" % nodes[i][1])
    return out


def unit_concrete(args):
    """one concrete document through the interpreted parser: canonical tree + monitors (encoder self-validation)"""
    res = {"doc": args["doc"], "opts": args["opts"], "errors": [], "outcome": "ok", "canon": None, "contract": [], "trace": [], "indicators": []}
    try:
        m = Machine(TC._PROG, [])
        m.max_steps = max(m.max_steps, 3000000)
        o = args["opts"]
        try:
            st = htmltree.run(m, [ord(c) for c in args["doc"]], htmltree.Opts(**{k: (tuple(v) if k == "context" and v else v) for k, v in o.items()}))
            res["canon"] = domsink.canon(st)
            res["indicators"] = ["indicator " + bytes(MD.byte_view(lab)).hex() for (lab, _) in m.notes.get("indicators", [])]
            res["contract"] = list(st["contract"])
            res["trace"] = trace_check(st, m)
        except Panic as e:
            res["outcome"] = "panic: " + e.msg
    except Unsupported as e:
        res["errors"].append("unsupported: " + str(e)[:300])
    except Exception:
        res["errors"].append("exception: " + traceback.format_exc()[-600:])
    return res


# ---------------------------------------------------------------- C08 (tree-builder half): options change nothing else
def observe(st, drop=("parse_error",), no_doctype=False):
    """the sink-visible effect of a parse: every call except parse errors (and, for drop_doctype, the doctype), then quirks"""
    out = []
    for c in st["calls"]:
        if c[0] in drop or (no_doctype and c[0] == "append_doctype_to_document"):
            continue
        out.append(c)
    out.append(("quirks", st["quirks"] or "NoQuirks"))
    out.append(("feeds",) + tuple(st.get("feed_results", ())))
    return out


def obs_diff(a, b):
    """-> True (equal) | str (structurally different) | list of z3 conditions, one of which must hold for a difference"""
    if len(a) != len(b):
        return "%d sink calls vs %d" % (len(a), len(b))
    conds = []
    for x, y in zip(a, b):
        if x[0] != y[0] or len(x) != len(y):
            return "call %s vs %s" % (x[0], y[0])
        for p, q in zip(x[1:], y[1:]):
            if isinstance(p, list) and isinstance(q, list):
                if len(p) != len(q):
                    return "%s: attribute lists of %d vs %d" % (x[0], len(p), len(q))
                pairs = list(zip(p, q))
            else:
                pairs = [(p, q)]
            for u, v in pairs:
                if isinstance(u, (int, str, bool, type(None))) or isinstance(v, (int, str, bool, type(None))):
                    if u != v:
                        return "%s: %r vs %r" % (x[0], u, v)
                    continue
                try:
                    e = MD.val_eq(u, v)
                except Unsupported:
                    return "%s: incomparable %r vs %r" % (x[0], u, v)
                if e is False:
                    return "%s: %r vs %r" % (x[0], u, v)
                if e is not True:
                    conds.append(z3.Not(e))
    return conds if conds else True


def explore_tree(chars, cons, o, maxp):
    """all paths of one configuration -> [(pc, sink state | None, outcome, machine notes)]"""
    out, work, nq = [], [[]], 0
    while work:
        d = work.pop()
        m = Machine(TC._PROG, d)
        m.max_steps = max(m.max_steps, 3000000)
        for c in cons:
            m.assume(c)
        try:
            st = htmltree.run(m, chars, htmltree.Opts(**{k: (tuple(v) if k == "context" and v else v) for k, v in o.items()}))
            out.append((list(m.pc), st, "ok", m.notes))
        except Panic as e:
            out.append((list(m.pc), m.notes.get("tree"), "panic: " + e.msg, m.notes))
        except PathEnd:
            pass
        work.extend(m.pending)
        nq += m.nqueries
        if len(out) > maxp:
            raise Unsupported("path budget exceeded")
    return out, nq


def unit_tree_diff(args):
    """args: name, shape, opts (base), variant (dict of option overrides), no_doctype (bool)"""
    t0 = time.time()
    res = {"unit": "treediff %s" % args["name"], "name": args["name"], "paths": 0, "queries": 0, "obligations": 0, "errors": [], "C08": [], "budget_hit": False, "steps": 0}
    try:
        chars, cons = build_input(args["shape"])
        base_o, var_o = dict(args.get("opts", {})), dict(args.get("opts", {}), **args["variant"])
        base, nq = explore_tree(chars, cons, base_o, args.get("max_paths", 3000))
        res["queries"] += nq
        seen = set()
        for (pca, sta, outa, _) in base:
            res["paths"] += 1
            var, nq = explore_tree(chars, list(cons) + pca, var_o, args.get("max_paths", 3000))
            res["queries"] += nq
            for (pcb, stb, outb, _) in var:
                res["obligations"] += 1
                if outa != "ok" or outb != "ok":
                    d = True if (outa != "ok") == (outb != "ok") else "one configuration panics: %s / %s" % (outa, outb)
                else:
                    d = obs_diff(observe(sta, no_doctype=args.get("no_doctype", False)), observe(stb, no_doctype=args.get("no_doctype", False)))
                if d is True:
                    continue
                rr, mo = TC.model_of(list(cons) + pca + pcb, [z3.Or(d)] if isinstance(d, list) else [])
                res["queries"] += 1
                if rr == z3.unsat:
                    continue
                if rr != z3.sat:
                    res["errors"].append("solver unknown")
                    continue
                msg = d if isinstance(d, str) else "a call argument differs"
                if msg[:40] in seen:
                    continue
                seen.add(msg[:40])
                res["C08"].append({"what": "%s changes the parse: %s" % (args["variant"], msg), "chars": concretize(chars, mo), "opts": base_o, "variant": args["variant"],
                                   "no_doctype": args.get("no_doctype", False), "name": args["name"]})
    except Unsupported as e:
        res["errors"].append("unsupported: " + str(e)[:300])
    except Exception:
        res["errors"].append("exception: " + traceback.format_exc()[-900:])
    res["wall"] = time.time() - t0
    return res


# ---------------------------------------------------------------- C19 (b): when feed() reports an encoding indicator
def unit_meta(args):
    """every feasible path: the EncodingIndicator results of feed() are exactly, in order, the labels of the inserted HTML
    meta elements that carry a charset attribute, or http-equiv ~ content-type plus a content attribute from which the
    WHATWG extraction algorithm (spec/meta_charset_ref.py) returns a label; at each of them the meta element is in the tree"""
    from spec import meta_charset_ref as R
    t0 = time.time()
    res = {"unit": "meta %s" % args["name"], "name": args["name"], "paths": 0, "queries": 0, "obligations": 0, "errors": [], "C19": [], "budget_hit": False, "steps": 0}
    try:
        chars, cons = build_input(args["shape"])
        o = args.get("opts", {})
        paths, nq = explore_tree(chars, cons, o, args.get("max_paths", 3000))
        res["queries"] += nq
        seen = set()
        for (pc, st, outcome, notes) in paths:
            res["paths"] += 1
            if outcome != "ok":
                continue
            got = list(notes.get("indicators", []))          # [(label chars, meta attached?)]
            metas = [c for c in st["calls"] if c[0] == "create_element" and MD.seq_eq(c[2].f[1].ch, [ord(x) for x in HTML]) is True
                     and MD.seq_eq(c[2].f[2].ch, [ord(x) for x in "meta"]) is True]
            # expected labels under this path (the reference forks on symbolic characters: explore it)
            rwork = [[]]
            while rwork:
                rd = rwork.pop()
                m2 = Machine(None, rd)
                for c in list(cons) + pc:
                    m2.assume(c)
                try:
                    exp = []
                    for c in metas:
                        attrs = c[3]

                        def attr(name):
                            for a in attrs:
                                if len(a.f[0].f[1].ch) == 0 and MD.seq_eq(a.f[0].f[2].ch, [ord(x) for x in name]) is True:
                                    return a.f[1].ch
                            return None
                        cs, he, ct = attr("charset"), attr("http-equiv"), attr("content")
                        if cs is not None:
                            exp.append(list(cs))
                        elif he is not None and ct is not None and m2.branch_bool(MD.seq_eq([MD.ascii_lower(x) for x in he], [ord(x) for x in "content-type"]), "http-equiv"):
                            lab = R.extract(m2, MD.byte_view(list(ct)))
                            if lab is not None:
                                exp.append(("bytes", list(lab)))
                except PathEnd:
                    rwork.extend(m2.pending)
                    continue
                rwork.extend(m2.pending)
                res["queries"] += m2.nqueries
                res["obligations"] += 1
                bad, conds = None, []
                if len(got) != len(exp):
                    bad = "feed() reported %d encoding indicators, %d meta elements qualify" % (len(got), len(exp))
                else:
                    for (lab, attached), e in zip(got, exp):
                        if not attached:
                            bad = "the meta element is not in the tree when the indicator is reported"
                        want = e[1] if isinstance(e, tuple) else MD.byte_view(e)
                        have = MD.byte_view(lab)
                        if len(want) != len(have):
                            bad = "label of %d bytes reported, %d expected" % (len(have), len(want))
                            break
                        for u, v in zip(have, want):
                            if isinstance(u, int) and isinstance(v, int):
                                if u != v:
                                    bad = "label differs"
                            else:
                                conds.append(u != v)
                if bad is None and not conds:
                    continue
                rr, mo = TC.model_of(list(m2.pc), [z3.Or(conds)] if (bad is None and conds) else [])
                res["queries"] += 1
                if rr == z3.unsat:
                    continue
                if rr != z3.sat:
                    res["errors"].append("solver unknown")
                    continue
                msg = bad or "the reported label differs from the expected one"
                if msg[:40] in seen:
                    continue
                seen.add(msg[:40])
                res["C19"].append({"what": msg, "chars": concretize(chars, mo), "opts": o, "name": args["name"]})
    except Unsupported as e:
        res["errors"].append("unsupported: " + str(e)[:300])
    except Exception:
        res["errors"].append("exception: " + traceback.format_exc()[-900:])
    res["wall"] = time.time() - t0
    return res


def expected_indicators(tree_lines):
    """the encoding indicators a parse must have reported, from the (native) tree: one per HTML meta element that qualifies"""
    from spec import meta_charset_ref as R
    out = []
    for l in tree_lines:
        f = l.split(" ", 3)
        if len(f) < 3 or f[1] != "elem":
            continue
        ns, local = f[2].split(":")
        if bytes.fromhex(ns).decode() != HTML or bytes.fromhex(local).decode() != "meta":
            continue
        attrs = {}
        for a in (f[3].strip("[]").split(" ") if len(f) > 3 else []):
            if "=" not in a:
                continue
            name, val = a.split("=", 1)
            ans, al = name.split(":")
            if ans == "":
                attrs.setdefault(bytes.fromhex(al).decode("utf-8", "replace"), bytes.fromhex(val))
        if "charset" in attrs:
            out.append("indicator " + attrs["charset"].hex())
        elif attrs.get("http-equiv", b"").lower() == b"content-type" and "content" in attrs:
            lab = R.extract(Machine(None, []), list(attrs["content"]))
            if lab is not None:
                out.append("indicator " + bytes(lab).hex())
    return out
