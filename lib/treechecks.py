"""Checks over the HTML parser (tokenizer + tree builder, both interpreted from MIR, composed as html5ever::driver does) on
documents with symbolic holes: C05 (TreeSink calling contract), C06 (document skeleton), C18 (trace_handles), and the
parser half of C04 (totality).  One exploration serves all four; each property reads its own verdicts."""
import time, traceback, z3
from . import tokchecks as TC
from mirsym import models as MD, tok, domsink, htmltree
from mirsym.interp import Machine, PathEnd, Panic, is_sym
from mirsym.mirparse import Unsupported

HTML = "http://www.w3.org/1999/xhtml"
WS = (0x20, 0x09, 0x0A, 0x0C, 0x0D)


def build_input(shape):
    """shape: list of items: str (literal) | int k (k symbolic ASCII characters) | ("name", k) (k symbolic lower-case
    letters: a tag or attribute name) | ("ws", k) (k symbolic characters from {space, tab, LF, FF, 'x'}) -> chars, constraints"""
    chars, cons, n = [], [], 0
    for it in shape:
        if isinstance(it, str):
            chars += [ord(c) for c in it]
            continue
        kind, k = ("any", it) if isinstance(it, int) else it
        for _ in range(k):
            name = "h%d" % n
            n += 1
            v = z3.BitVec(name, 32)
            MD.CHAR_CLASS[name] = 1
            if kind == "name":
                cons.append(z3.And(z3.UGE(v, 0x61), z3.ULE(v, 0x7A)))
            elif kind == "ws":
                cons.append(z3.Or(v == 0x20, v == 0x09, v == 0x0A, v == 0x0C, v == 0x78))
            else:
                cons.append(z3.And(z3.ULE(v, 0x7F), v != 0x0D))      # CR is normalised away before the tree builder; keep paths fewer
            chars.append(v)
    return chars, cons


def concretize(chars, mo):
    return [c if isinstance(c, int) else mo.eval(c, model_completion=True).as_long() for c in chars]


def elem_is(nd, local, ns=HTML):
    if nd["kind"] != "element":
        return False
    q = nd["name"]
    return MD.seq_eq(q.f[1].ch, [ord(c) for c in ns]) is True and MD.seq_eq(q.f[2].ch, [ord(c) for c in local]) is True


def skeleton(st, pc):
    """C06 on the model DOM of one path -> list of (message, extra z3 condition or None)"""
    out = []
    N = st["nodes"]
    kids = N[0]["children"]
    kinds = [N[k]["kind"] for k in kids]
    if kinds.count("doctype") > 1:
        out.append(("the document has %d doctypes" % kinds.count("doctype"), None))
    if "doctype" in kinds and any(x != "comment" for x in kinds[:kinds.index("doctype")]):
        out.append(("the doctype is preceded by a %s" % [x for x in kinds[:kinds.index("doctype")] if x != "comment"][0], None))
    if "text" in kinds:
        out.append(("a text node is a child of the document", None))
    elems = [k for k in kids if N[k]["kind"] == "element"]
    if len(elems) != 1 or not elem_is(N[elems[0]], "html"):
        out.append(("the document's element children are %s, not exactly one html" % [domsink.describe(st, k) for k in elems], None))
        return out
    html = N[elems[0]]
    ek = [k for k in html["children"] if N[k]["kind"] == "element"]
    names = []
    for k in ek:
        q = N[k]["name"]
        names.append(("" if MD.seq_eq(q.f[1].ch, [ord(c) for c in HTML]) is True else "{foreign}") + "".join(chr(c) if isinstance(c, int) else "?" for c in q.f[2].ch))
    ok = names[:2] in (["head", "body"], ["head", "frameset"]) and (
        (names[1] == "body" and len(names) == 2) or (names[1] == "frameset" and all(x == "noframes" for x in names[2:])))
    if not ok:
        out.append(("html's element children are %s" % names, None))
    for k in html["children"]:
        if N[k]["kind"] == "text":
            for c in N[k]["text"]:
                if isinstance(c, int):
                    if c not in WS:
                        out.append(("non-whitespace text %r is a child of html" % chr(c), None))
                        break
                else:
                    out.append(("non-whitespace text is a child of html", z3.And(*[c != w for w in WS])))
                    break
    for h, nd in N.items():
        prev_text = False
        for k in nd["children"]:
            t = N[k]["kind"] == "text"
            if t and prev_text:
                out.append(("two text nodes are adjacent siblings under %s" % domsink.describe(st, h), None))
            if t and len(N[k]["text"]) == 0:
                out.append(("an empty text node under %s" % domsink.describe(st, h), None))
            prev_text = t
        if nd["children"] and nd["kind"] not in ("document", "element", "fragment"):
            out.append(("a %s node has children" % nd["kind"], None))
    return out


def trace_check(st, m):
    """C18: every pause recorded (kind, traced handles, next handle at that time, index into calls, connectivity snapshot)"""
    out = []
    for p in m.notes.get("pauses_full", []):
        allowed, created_before, call_idx, kind = p["closure"], p["next"], p["calls"], p["kind"]
        for c in st["calls"][call_idx:]:
            for h in call_handles(c):
                if h < created_before and h not in allowed and h != 0:
                    out.append("after the pause (%s, %d sink calls in) the tree builder passes %s to %s, a node created before the pause that trace_handles did not report "
                               "and that was not connected to a reported node" % (kind, call_idx, domsink.describe(st, h), c[0]))
                    break
            else:
                continue
            break
    return out


def call_handles(c):
    name = c[0]
    if name in ("create_element", "create_comment", "create_pi", "parse_error", "append_doctype_to_document", "set_quirks_mode"):
        return []
    return [x for x in c[1:] if isinstance(x, int) and not isinstance(x, bool)]


def closure(st, handles):
    """handles plus everything connected to them in the DOM (same tree, template contents included)"""
    N = st["nodes"]
    seen, work = set(), list(handles)
    while work:
        h = work.pop()
        if h in seen or h not in N:
            continue
        seen.add(h)
        nd = N[h]
        for x in [nd["parent"], nd["template"], nd["of_template"]] + list(nd["children"]):
            if x is not None:
                work.append(x)
    return seen


def pause_hook(m, kind, traced):
    st = domsink.state(m)
    if traced is None:
        return
    m.notes.setdefault("pauses_full", []).append({"kind": kind, "closure": closure(st, traced), "next": st["next"], "calls": len(st["calls"])})


htmltree.PAUSE_HOOK = pause_hook


def unit_tree(args):
    """args: name, shape, opts (dict for htmltree.Opts), max_paths"""
    t0 = time.time()
    res = {"unit": "tree %s" % args["name"], "name": args["name"], "paths": 0, "queries": 0, "obligations": 0, "errors": [], "steps": 0,
           "C04": [], "C05": [], "C06": [], "C18": [], "budget_hit": False}
    try:
        chars, cons = build_input(args["shape"])
        o = args.get("opts", {})
        work = [[]]
        maxp = args.get("max_paths", 4000)
        seen_msgs = {"C04": set(), "C05": set(), "C06": set(), "C18": set()}
        while work:
            d = work.pop()
            m = Machine(TC._PROG, d)
            m.max_steps = max(m.max_steps, 3000000)
            for c in cons:
                m.assume(c)
            outcome, st = "ok", None
            try:
                opts = htmltree.Opts(**{k: (tuple(v) if k == "context" and v else v) for k, v in o.items()})
                st = htmltree.run(m, chars, opts)
            except Panic as e:
                outcome = "panic: " + e.msg
                st = m.notes.get("tree")
            except PathEnd:
                work.extend(m.pending)
                res["queries"] += m.nqueries
                continue
            work.extend(m.pending)
            res["paths"] += 1
            res["queries"] += m.nqueries
            res["steps"] += m.steps
            if res["paths"] > maxp:
                res["budget_hit"] = True
                break
            pc = list(cons) + list(m.pc)

            def witness(extra=None):
                rr, mo = TC.model_of(pc, [extra] if extra is not None else [])
                res["queries"] += 1
                if rr != z3.sat:
                    return rr, None
                return rr, concretize(chars, mo)

            def report(prop, msg, extra=None):
                key = msg[:60]
                if key in seen_msgs[prop]:
                    return
                rr, w = witness(extra)
                if rr == z3.unsat:
                    return
                seen_msgs[prop].add(key)
                if w is None:
                    res["errors"].append("solver unknown for a %s witness" % prop)
                    return
                oo = dict(o)
                if m.notes.get("detached"):
                    oo.pop("script_detach", None)
                    oo["detach_plan"] = [list(x) for x in m.notes["detached"]]
                res[prop].append({"what": msg, "chars": w, "opts": oo, "name": args["name"]})
            if outcome != "ok":
                if "TreeSink contract" in outcome:
                    report("C05", outcome[7:])
                else:
                    report("C04", outcome)
                continue
            res["obligations"] += 3
            for msg in st["contract"]:
                report("C05", msg)
            if not o.get("context"):
                for msg, extra in skeleton(st, pc):
                    report("C06", msg, extra)
            for msg in trace_check(st, m):
                report("C18", msg)
    except Unsupported as e:
        res["errors"].append("unsupported: " + str(e)[:300])
    except Exception:
        res["errors"].append("exception: " + traceback.format_exc()[-900:])
    res["wall"] = time.time() - t0
    res["models_used"] = sorted(MD.USED)[:0]
    return res


# ---------------------------------------------------------------- native confirmation (replay binary, htmldoc mode)
def native_doc(exe, chars, opts):
    """-> (tree lines, contract lines, trace lines, panic message or None, case text)"""
    import subprocess
    doc = "".join(chr(c) for c in chars)
    lines = ["mode htmldoc", "scripting %d" % (1 if opts.get("scripting", True) else 0), "srcdoc %d" % (1 if opts.get("iframe_srcdoc") else 0),
             "quirks " + opts.get("quirks", "NoQuirks")]
    if opts.get("context"):
        lines += ["context %s %s" % (opts["context"][0].encode().hex(), opts["context"][1].encode().hex()),
                  "ctxscripting %d" % (1 if opts.get("ctx_scripting", True) else 0)]
        for k, v in opts.get("context_attrs", ()):
            lines.append("cattr %s %s" % (k.encode().hex(), v.encode().hex()))
        if opts.get("form"):
            lines.append("form 1")
    for (pk, ei) in (opts.get("detach_plan") or []):
        lines.append("detach %d %d" % (pk, ei))
    pos = 0
    for n in (opts.get("chunks") or [len(doc)]):
        lines.append("hchunk " + doc[pos:pos + n].encode("utf-8").hex())
        pos += n
    case = "\n".join(lines) + "\n"
    p = subprocess.run([exe], input=case.encode(), stdout=subprocess.PIPE, stderr=subprocess.PIPE, timeout=60)
    out = p.stdout.decode(errors="replace").splitlines()
    panic = None
    if p.returncode != 0:
        err = p.stderr.decode(errors="replace").splitlines()
        panic = "exit %d: %s" % (p.returncode, " ".join(l.strip() for i, l in enumerate(err) if "panicked at" in l or (i > 0 and "panicked at" in err[i - 1]))[:300])
    tree = [l for l in out if l[:1].isdigit() or l.startswith("quirks ")]
    return tree, [l[9:] for l in out if l.startswith("contract ")], [l[6:] for l in out if l.startswith("trace ")], panic, case


def skeleton_lines(lines):
    """C06 on the canonical dump of the native RcDom"""
    unhex = lambda h: bytes.fromhex(h).decode("utf-8", "replace")
    nodes = []          # (depth, kind, detail)
    for l in lines:
        if not l[:1].isdigit():
            continue
        f = l.split(" ")
        d, kind = int(f[0]), f[1]
        if kind == "elem":
            ns, local = f[2].split(":")
            nodes.append((d, "element", (unhex(ns), unhex(local))))
        elif kind == "text":
            nodes.append((d, "text", unhex(f[2]) if len(f) > 2 else ""))
        else:
            nodes.append((d, kind, None))
    out = []

    def children(i):
        d = nodes[i][0]
        res = []
        for j in range(i + 1, len(nodes)):
            if nodes[j][0] <= d:
                break
            if nodes[j][0] == d + 1:
                res.append(j)
        return res
    if not nodes:
        return ["no tree"]
    kids = children(0)
    kinds = [nodes[k][1] for k in kids]
    if kinds.count("doctype") > 1:
        out.append("the document has %d doctypes" % kinds.count("doctype"))
    if "doctype" in kinds and any(x != "comment" for x in kinds[:kinds.index("doctype")]):
        out.append("the doctype is preceded by a non-comment")
    if "text" in kinds:
        out.append("a text node is a child of the document")
    elems = [k for k in kids if nodes[k][1] == "element"]
    if len(elems) != 1 or nodes[elems[0]][2] != (HTML, "html"):
        out.append("the document's element children are %s, not exactly one html" % [nodes[k][2][1] for k in elems])
    else:
        hk = children(elems[0])
        names = [("" if nodes[k][2][0] == HTML else "{foreign}") + nodes[k][2][1] for k in hk if nodes[k][1] == "element"]
        ok = names[:2] in (["head", "body"], ["head", "frameset"]) and (
            (names[1] == "body" and len(names) == 2) or (names[1] == "frameset" and all(x == "noframes" for x in names[2:])))
        if not ok:
            out.append("html's element children are %s" % names)
        for k in hk:
            if nodes[k][1] == "text" and any(ord(c) not in WS for c in nodes[k][2]):
                out.append("non-whitespace text is a child of html")
    for i in range(len(nodes)):
        prev = False
        ks = children(i)
        for k in ks:
            t = nodes[k][1] == "text"
            if t and prev:
                out.append("two text nodes are adjacent siblings")
            if t and nodes[k][2] == "":
                out.append("an empty text node")
            prev = t
        if ks and nodes[i][1] not in ("document", "element", "content"):
            out.append("a %s node has children" % nodes[i][1])
    return out


def unit_concrete(args):
    """one concrete document through the interpreted parser: canonical tree + monitors (encoder self-validation)"""
    res = {"doc": args["doc"], "opts": args["opts"], "errors": [], "outcome": "ok", "canon": None, "contract": [], "trace": []}
    try:
        m = Machine(TC._PROG, [])
        m.max_steps = max(m.max_steps, 3000000)
        o = args["opts"]
        try:
            st = htmltree.run(m, [ord(c) for c in args["doc"]], htmltree.Opts(**{k: (tuple(v) if k == "context" and v else v) for k, v in o.items()}))
            res["canon"] = domsink.canon(st)
            res["contract"] = list(st["contract"])
            res["trace"] = trace_check(st, m)
        except Panic as e:
            res["outcome"] = "panic: " + e.msg
    except Unsupported as e:
        res["errors"].append("unsupported: " + str(e)[:300])
    except Exception:
        res["errors"].append("exception: " + traceback.format_exc()[-600:])
    return res
