"""Engine K: run Kani/CBMC harnesses over the real crates (path deps on /repo),
parse the solver's verdict, and replay counter-examples natively before reporting."""
import os, re, subprocess, resource, signal, time, json, threading, queue, random
from . import common as C

KANI_DIR = os.path.join(C.VERIF, "kani")
MEM_CAP_KB = int(os.environ.get("VERIF_KANI_MEM_GB", "14")) * 1024 * 1024
JOBS = int(os.environ.get("VERIF_JOBS", "12"))
HARNESS_MOD = "proofs"


class H:
    """One harness: name, wall cap (s), what it covers (for evidence)."""

    def __init__(self, name, cap, desc, bounds, tier="quick", crate=None, expect_cover=True):
        self.name, self.cap, self.desc, self.bounds, self.tier = name, cap, desc, bounds, tier
        self.crate = crate
        self.expect_cover = expect_cover


def _limits():
    os.setsid()
    resource.setrlimit(resource.RLIMIT_AS, (MEM_CAP_KB * 1024, MEM_CAP_KB * 1024))


def _run(cmd, cwd, log, cap, envx=None, limit=True):
    t0 = time.time()
    with open(log, "w") as f:
        p = subprocess.Popen(cmd, cwd=cwd, stdout=f, stderr=subprocess.STDOUT,
                             env=C.env(**(envx or {})), preexec_fn=_limits if limit else os.setsid)
        try:
            rc = p.wait(timeout=cap)
            to = False
        except subprocess.TimeoutExpired:
            to = True
            try:
                os.killpg(p.pid, signal.SIGKILL)
            except ProcessLookupError:
                pass
            p.wait()
            rc = -9
    return rc, to, time.time() - t0


RE_VARS = re.compile(r"^(\d+) variables, (\d+) clauses", re.M)
RE_VCC = re.compile(r"Generated (\d+) VCC\(s\), (\d+) remaining")
RE_STEPS = re.compile(r"size of program expression: (\d+) steps")
RE_SOLVER = re.compile(r"Runtime Solver: ([0-9.e+-]+)s")
RE_DEC = re.compile(r"Runtime decision procedure: ([0-9.e+-]+)s")
RE_SYMEX = re.compile(r"Runtime Symex: ([0-9.e+-]+)s")
RE_COVER = re.compile(r"\*\* (\d+) of (\d+) cover properties satisfied")
RE_CHECKS = re.compile(r"\*\* (\d+) of (\d+) failed")
RE_FAILED = re.compile(r"^Failed Checks: (.*)\n(?: File: \"([^\"]*)\", line (\d+), in (.*)\n)?", re.M)
RE_STUB = re.compile(r"^\s+- Stub: (.*)$", re.M)


def parse(logtext):
    r = {}
    r["verdict"] = "SUCCESSFUL" if "VERIFICATION:- SUCCESSFUL" in logtext else (
        "FAILED" if "VERIFICATION:- FAILED" in logtext else "NONE")
    m = RE_COVER.search(logtext)
    r["cover_sat"], r["cover_total"] = (int(m.group(1)), int(m.group(2))) if m else (0, 0)
    m = RE_CHECKS.search(logtext)
    r["checks_failed"], r["checks_total"] = (int(m.group(1)), int(m.group(2))) if m else (0, 0)
    if not m:
        m2 = re.search(r"\*\* 0 of (\d+) failed", logtext)
    r["failed"] = [{"desc": a, "file": b, "line": c, "fn": d} for a, b, c, d in RE_FAILED.findall(logtext)]
    vs = RE_VARS.findall(logtext)
    r["sat_vars"] = max([int(a) for a, _ in vs], default=0)
    r["sat_clauses"] = max([int(b) for _, b in vs], default=0)
    m = RE_VCC.search(logtext)
    r["vccs"], r["vccs_after_simplification"] = (int(m.group(1)), int(m.group(2))) if m else (0, 0)
    m = RE_STEPS.search(logtext)
    r["program_steps"] = int(m.group(1)) if m else 0
    r["solver_s"] = round(sum(float(x) for x in RE_DEC.findall(logtext)), 3)
    r["solver_calls"] = len(RE_DEC.findall(logtext))
    m = RE_SYMEX.search(logtext)
    r["symex_s"] = float(m.group(1)) if m else 0.0
    r["stubs"] = sorted(set(s.strip() for s in RE_STUB.findall(logtext)))
    r["oom"] = ("Status: ERROR" in logtext) or ("std::bad_alloc" in logtext) or ("Out of memory" in logtext) or ("memory exhausted" in logtext)
    r["ice"] = "internal compiler error" in logtext or "error: could not compile" in logtext
    return r


RE_TEST = re.compile(r"/// Check for `([^`]*)`: \"(.*?)\"\n.*?let concrete_vals: Vec<Vec<u8>> = vec!\[(.*?)\n    \];", re.S)


def parse_playback(logtext):
    out = []
    for kind, desc, body in RE_TEST.findall(logtext):
        vals = []
        for m in re.finditer(r"vec!\[([0-9, ]*)\]", body):
            vals.append([int(x) for x in m.group(1).replace(" ", "").split(",") if x != ""])
        out.append({"kind": kind, "desc": desc, "vals": vals})
    return out


def hexvals(vals):
    return ",".join("".join("%02x" % b for b in v) for v in vals)


def native_build(crate, profile):
    tdir = os.path.join(C.CACHE, "native-" + crate)
    cmd = ["cargo", "build", "--offline", "--bin", "replay"] + (["--release"] if profile == "release" else [])
    log = os.path.join(C.CACHE, "native-%s-%s.log" % (crate, profile))
    os.makedirs(C.CACHE, exist_ok=True)
    rc, to, _ = _run(cmd, C.crate_dir("kani/" + crate), log, 900, {"CARGO_TARGET_DIR": tdir}, limit=False)
    if rc != 0:
        return None
    return os.path.join(tdir, "release" if profile == "release" else "debug", "replay")


def native_replay(crate, harness, vals, profiles=("dev", "release"), fill=None):
    """-> dict profile -> 'fails' | 'passes' | 'mismatch' | 'buildfail'"""
    res = {}
    for pr in profiles:
        exe = native_build(crate, pr)
        if not exe:
            res[pr] = "buildfail"
            continue
        p = subprocess.run([exe, harness, hexvals(vals)], stdout=subprocess.PIPE, stderr=subprocess.STDOUT,
                           env=C.env(RUST_BACKTRACE="0", **({"VERIF_REPLAY_FILL": fill} if fill else {})), timeout=120)
        txt = p.stdout.decode(errors="replace")
        if p.returncode == 0 and "REPLAY-PASS" in txt:
            res[pr] = "passes"
        elif p.returncode == 3:
            res[pr] = "mismatch"
        else:
            res[pr] = "fails"
            res[pr + "_msg"] = "\n".join(l for l in txt.splitlines() if "panicked" in l or "assertion" in l)[:400]
    return res


def miri_replay(crate, harness, vals, fill=None):
    """replay a counter-example of an undefined-behaviour class check (invalid/dangling pointer, double free, out of bounds)
    under Miri, which - unlike a native run - detects it; -> 'ub' | 'clean' | 'error'"""
    tdir = os.path.join(C.CACHE, "miri-" + crate)
    try:
        p = subprocess.run(["cargo", "+nightly", "miri", "run", "--offline", "--bin", "replay", "--", harness, hexvals(vals)],
                           cwd=C.crate_dir("kani/" + crate), stdout=subprocess.PIPE, stderr=subprocess.STDOUT, timeout=900,
                           env=C.env(CARGO_TARGET_DIR=tdir, MIRIFLAGS="-Zmiri-disable-isolation", RUST_BACKTRACE="0",
                                     **({"VERIF_REPLAY_FILL": fill} if fill else {})))
    except subprocess.TimeoutExpired:
        return "error", "timeout"
    txt = p.stdout.decode(errors="replace")
    if "Undefined Behavior" in txt or "error: memory leaked" in txt:
        msg = "\n".join(l for l in txt.splitlines() if "Undefined Behavior" in l or "memory leaked" in l or l.startswith("error"))[:400]
        return "ub", msg
    if p.returncode == 0 and "REPLAY-PASS" in txt:
        return "clean", ""
    if p.returncode == 101 or "panicked" in txt:
        return "ub", "panic under Miri: " + "\n".join(l for l in txt.splitlines() if "panicked" in l)[:300]
    return "error", txt[-300:]


def run_harness(crate, h, slot, logdir, playback=False):
    tdir = os.path.join(C.CACHE, "kani-%s-%d" % (crate, slot))
    cmd = ["cargo", "kani", "-Z", "stubbing", "--target-dir", tdir,
           "--harness", HARNESS_MOD + "::" + h.name, "--exact"]
    if playback:
        cmd[2:2] = ["-Z", "concrete-playback", "--concrete-playback=print"]
    log = os.path.join(logdir, "%s-%s%s.log" % (crate, h.name, "-pb" if playback else ""))
    rc, to, wall = _run(cmd, C.crate_dir("kani/" + crate), log, h.cap * (3 if playback else 1))
    with open(log, errors="replace") as f:
        txt = f.read()
    r = parse(txt)
    r.update({"rc": rc, "timeout": to, "wall_s": round(wall, 1), "log": log})
    if playback:
        r["playback"] = parse_playback(txt)
    return r


def keep_log(path):
    d = os.path.join(C.CACHE, "logs")
    os.makedirs(d, exist_ok=True)
    dst = os.path.join(d, os.path.basename(path))
    try:
        # keep only the informative part
        with open(path, errors="replace") as f, open(dst, "w") as g:
            for line in f:
                if "nwinding loop" in line or line.startswith("aborting path"):
                    continue
                g.write(line)
    except OSError:
        pass
    return dst


UB_WORDS = ("dereference failure", "pointer", "memory leak", "double free", "deallocat", "free argument",
            "misaligned", "invalid", "out of bounds", "undefined", "overlap")


def run_all(out, crate, harnesses, sources):
    """Run harnesses (list of H) 16-wide; record everything in `out` (common.Outcome)."""
    logdir = C.scratch("kani-" + crate)
    rnd = random.Random(C.seed())
    hs = list(harnesses)
    # the seed only changes scheduling order, never what is checked
    rnd.shuffle(hs)
    hs.sort(key=lambda h: -h.cap)
    q = queue.Queue()
    for h in hs:
        q.put(h)
    results = {}
    lock = threading.Lock()
    nslots = max(1, min(JOBS, len(hs)))

    def worker(slot):
        while True:
            try:
                h = q.get_nowait()
            except queue.Empty:
                return
            r = run_harness(crate, h, slot, logdir)
            with lock:
                results[h.name] = r

    th = [threading.Thread(target=worker, args=(i,)) for i in range(nslots)]
    for i, t in enumerate(th):
        t.start()
        time.sleep(0.2)
    for t in th:
        t.join()

    out.extra.setdefault("source_hash", C.src_hash(sources))
    out.extra.setdefault("source_files", sources)
    for h in hs:
        r = results[h.name]
        unit = {"engine": "kani 0.68 / cbmc 6.11 / cadical", "crate": "kani/" + crate, "harness": h.name, "checks": h.desc,
                "bounds": h.bounds, "verdict": r["verdict"], "wall_s": r["wall_s"],
                "cbmc_checks": r["checks_total"], "vccs": r["vccs"], "program_steps": r["program_steps"],
                "sat_vars": r["sat_vars"], "sat_clauses": r["sat_clauses"], "solver_s": r["solver_s"],
                "solver_calls": r["solver_calls"],
                "cover_witnesses": "%d/%d" % (r["cover_sat"], r["cover_total"]), "stubs": r["stubs"]}
        out.units.append(unit)
        out.queries += r["solver_calls"]
        out.solver_s += r["solver_s"]
        if r["timeout"]:
            out.inconclusive.append("kani harness %s: no verdict within %ds cap (never reported as success)" % (h.name, h.cap))
            keep_log(r["log"])
            continue
        if r["verdict"] == "NONE" or r["oom"] or r["ice"]:
            out.inconclusive.append("kani harness %s: no verdict (rc=%s oom=%s ice=%s) log=%s" % (
                h.name, r["rc"], r["oom"], r["ice"], keep_log(r["log"])))
            continue
        if r["verdict"] == "SUCCESSFUL":
            if h.expect_cover and (r["cover_total"] == 0 or r["cover_sat"] < r["cover_total"]):
                out.inconclusive.append("kani harness %s: vacuity witness not satisfied (%d/%d covers) log=%s" % (
                    h.name, r["cover_sat"], r["cover_total"], keep_log(r["log"])))
            else:
                out.samples.append({"harness": h.name, "holds_for": h.bounds, "cover_witnesses": unit["cover_witnesses"]})
            continue
        # FAILED
        real = [f for f in r["failed"] if "unwinding assertion" not in f["desc"] and "not currently supported" not in f["desc"]]
        if not real:
            out.inconclusive.append("kani harness %s: failed only on %s (bound too small / unsupported construct) log=%s" % (
                h.name, sorted(set(f["desc"][:60] for f in r["failed"])), keep_log(r["log"])))
            continue
        # get concrete values and replay natively
        pb = run_harness(crate, h, 0 if nslots == 1 else hs.index(h) % nslots, logdir, playback=True)
        cases = [c for c in pb.get("playback", []) if c["kind"] != "cover"]
        if not cases:
            # no values came back (a harness without symbolic inputs, or the driver's trace parser gave up): the harness is
            # tried as it is and on uniform fillings of its inputs; only a failure that reproduces this way is reported
            cases = [{"kind": "assert", "desc": real[0]["desc"], "vals": [], "fill": f_} for f_ in (None, "00", "61", "01")]
        reported = False
        for c in cases:
            fill = c.get("fill")
            rep = native_replay(crate, h.name, c["vals"], fill=fill)
            unit.setdefault("replays", []).append({"check": c["desc"], "values": hexvals(c["vals"]), "fill": fill, "native": rep})
            fails = [p for p in ("dev", "release") if rep.get(p) == "fails"]
            ubclass = any(w in c["desc"].lower() for w in UB_WORDS)
            if not fails and ubclass and all(rep.get(p_) == "passes" for p_ in ("dev", "release")):
                verdict, msg = miri_replay(crate, h.name, c["vals"], fill=fill)
                unit["replays"][-1]["miri"] = {"verdict": verdict, "msg": msg}
                if verdict == "ub":
                    what = "%s: %s [harness %s, values %s; a native run does not trap, Miri confirms: %s]" % (h.desc, c["desc"], h.name, hexvals(c["vals"]), msg[:200])
                    out.violation(what, {"engine": "kani", "crate": crate, "harness": h.name, "values": hexvals(c["vals"]), "fill": fill, "check": c["desc"], "native": rep, "miri": msg},
                                  key="%s:%s" % (h.name, c["desc"][:80]))
                    reported = True
                    break
            if fails:
                what = "%s: %s [harness %s, values %s; reproduces natively in %s]" % (
                    h.desc, c["desc"], h.name, hexvals(c["vals"]), "+".join(fails))
                out.violation(what, {"engine": "kani", "crate": crate, "harness": h.name, "values": hexvals(c["vals"]), "fill": fill,
                                     "check": c["desc"], "native": rep}, key="%s:%s" % (h.name, c["desc"][:80]))
                reported = True
                break
        if not reported:
            c = cases[0]
            out.inconclusive.append(
                "kani harness %s: counter-example for '%s' (values %s) does NOT reproduce natively (%s) - encoding/stub problem or UB-class check; not reported as a violation; log=%s" % (
                    h.name, c["desc"][:100], hexvals(c["vals"]), unit["replays"][0]["native"], keep_log(pb["log"])))
    C.rm(logdir)
