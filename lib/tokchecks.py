"""Engine M checks over the HTML tokenizer (C03, C04, C08, C09 and the shared machinery).

Work is split into units (one start state x one configuration family) that run in a process
pool; every unit explores all feasible paths of the interpreted MIR for symbolic input
characters and discharges its obligations with z3.  A violating assignment is turned into a
concrete case and replayed against the natively built tokenizer before it is reported."""
import os, sys, time, json, itertools, multiprocessing, traceback, random, hashlib
import z3

from . import common as C

sys.path.insert(0, C.VERIF)
from mirsym import models as MD
from mirsym import tok
from mirsym.program import Program
from mirsym.mirparse import Unsupported
from mirsym.interp import is_sym
from mirsym import build

_PROG = None


def _init(mir, ent, crate):
    global _PROG
    _PROG = Program(mir, C.REPO, crate, MD.M)
    if ent:
        tok.load_entities(_PROG, ent)


def compositions(k, allow_empty_edges=False):
    """all ways to cut k characters into non-empty chunks (lengths)"""
    if k > 6:
        raise ValueError("too many compositions")
    out = []
    for bits in range(1 << max(0, k - 1)):
        parts, cur = [], 1
        for i in range(k - 1):
            if bits >> i & 1:
                parts.append(cur)
                cur = 1
            else:
                cur += 1
        parts.append(cur)
        out.append(parts)
    if k == 0:
        out = [[]]
    return out


def splits(n):
    """chunkings of n characters: every composition for n <= 6, otherwise every two-way split plus one character per chunk"""
    if n <= 6:
        return [c for c in compositions(n) if len(c) > 1]
    return [[i, n - i] for i in range(1, n)] + [[1] * n]


def split(chars, lens):
    out, i = [], 0
    for l in lens:
        out.append(chars[i:i + l])
        i += l
    return out


def model_of(pc, extra=()):
    s = z3.Solver()
    s.set("timeout", 30000)
    s.add(*pc)
    s.add(*extra)
    r = s.check()
    return (r, s.model() if r == z3.sat else None)


def line_breaks_expr(chars, upto):
    """number of line breaks (LF, CR, CRLF once) in chars[:upto] as a z3 integer term"""
    terms = []
    for i in range(upto):
        c = chars[i]
        is_cr = (c == 0x0D) if is_sym(c) else (c == 0x0D)
        is_lf = (c == 0x0A)
        if i > 0:
            p = chars[i - 1]
            prev_cr = (p == 0x0D)
            lf_counts = z3.And(is_lf, z3.Not(prev_cr)) if (is_sym(c) or is_sym(p)) else (is_lf and not prev_cr)
        else:
            lf_counts = is_lf
        for t in (is_cr, lf_counts):
            if t is True:
                terms.append(z3.IntVal(1))
            elif t is False:
                pass
            else:
                terms.append(z3.If(t, z3.IntVal(1), z3.IntVal(0)))
    return z3.Sum(terms) if terms else z3.IntVal(0)


def concrete_chars(chars, mo):
    out = []
    for c in chars:
        if isinstance(c, int):
            out.append(c)
        else:
            v = mo.eval(c, model_completion=True)
            out.append(v.as_long())
    return out


def cfg_dict(cfg):
    return {"state": cfg.state, "exact_errors": cfg.exact_errors, "discard_bom": cfg.discard_bom, "profile": cfg.profile,
            "last_start_tag": cfg.last_start_tag, "on_start": cfg.sink.on_start, "foreign": cfg.sink.foreign, "simd": cfg.simd,
            "dialect": getattr(cfg, "dialect", "html")}


def mk_cfg(d, **kw):
    d = dict(d)
    d.update(kw)
    return tok.Cfg(state=d["state"] if not isinstance(d["state"], list) else _tup(d["state"]),
                   exact_errors=d["exact_errors"], discard_bom=d["discard_bom"],
                   profile=d["profile"], last_start_tag=d["last_start_tag"],
                   sink=tok.SinkCfg(on_start=_tup(d["on_start"]), foreign=d["foreign"]), simd=d.get("simd", True),
                   chunks=d.get("chunks"), constraints=d.get("constraints", []), dialect=d.get("dialect", "html"))


def _tup(x):
    if isinstance(x, list):
        return tuple(_tup(e) for e in x)
    return x


# ---------------------------------------------------------------- unit: differential A vs B under the same input
def unit_diff(args):
    """args: dict(kind, state, k, classes, base cfg dict, variants: list of (label, cfg overrides, chunk lens or None))
    For every path a of the base configuration, explore each variant under pc_a and require equal observations."""
    t0 = time.time()
    res = {"unit": "%s %s %r+k=%d+%r cls=%s%s" % (args["kind"], tok.state_spec(_tup(args["state"])), "".join(map(chr, args.get("prefix") or [])), args["k"],
                                                    "".join(map(chr, args.get("suffix") or []))[:8], args.get("classes"), " ee" if args["base"].get("exact_errors") else ""),
           "paths": 0, "queries": 0, "obligations": 0, "violations": [], "panics": [], "errors": [], "livelock": 0}
    try:
        k = args["k"]
        chars, cons = tok.sym_chars(k, args.get("classes"))
        extra = []
        for (i, v) in args.get("force", []):
            extra.append(chars[i] == v)
        if args.get("forbid_first") is not None and chars:
            extra.append(chars[0] != args["forbid_first"])
        for x in args.get("exclude", ""):
            for c_ in chars:
                extra.append(c_ != ord(x))
        if args.get("prefix"):
            chars = list(args["prefix"]) + chars
        suffix = list(args.get("suffix") or [])
        nsym = len(chars)
        chars = chars + suffix
        base = dict(args["base"])
        base["state"] = _tup(args["state"])
        stats = {}
        bl = args.get("base_lens")
        if bl is not None and suffix:
            bl = list(bl) + [len(suffix)]
        A = tok.explore(_PROG, mk_cfg(base, constraints=cons + extra, chunks=split(chars, bl) if bl is not None else None), chars, stats=stats)
        keep_err = args.get("keep_errors", True)
        for a in A:
            check_path_sanity(res, a, chars, base, None, args)
            if a.outcome != "ok":
                continue
            oa = tok.normalize(a.tokens, drop_errors=not keep_err, keep_lines=True)
            for var in args["variants"]:
                label, over, lens = var[0], var[1], var[2]
                vopt = var[3] if len(var) > 3 else {}
                v = dict(base)
                v.update(over)
                vchars = chars[vopt.get("skip", 0):]
                if lens is not None and suffix:
                    lens = list(lens) + [len(suffix)]
                chunks = split(vchars, lens) if lens is not None else None
                if not args.get("compare", True):
                    if a is not A[0]:
                        continue
                    B = tok.explore(_PROG, mk_cfg(v, constraints=cons + extra, chunks=chunks), vchars, stats=stats)
                    for b in B:
                        check_path_sanity(res, b, vchars, v, lens, dict(args, line_oracle=False))
                    continue
                B = tok.explore(_PROG, mk_cfg(v, constraints=cons + extra + a.pc, chunks=chunks), vchars, stats=stats)
                for b in B:
                    check_path_sanity(res, b, vchars, v, lens, dict(args, line_oracle=args.get("line_oracle") and not vopt.get("skip")))
                    if b.outcome != "ok":
                        continue
                    ob = tok.normalize(b.tokens, drop_errors=not keep_err, keep_lines=True)
                    eq = tok.obs_equal(oa, ob)
                    res["obligations"] += 1
                    if eq is True:
                        continue
                    r, mo = model_of(b.pc, [z3.Not(eq)] if eq is not False else [])
                    res["queries"] += 1
                    if r == z3.unsat:
                        continue
                    if r != z3.sat:
                        res["errors"].append("solver unknown in obligation")
                        continue
                    cc = concrete_chars(chars, mo)
                    res["violations"].append({"what": "observations differ: %s vs %s" % ("base", label),
                                              "chars": cc, "base": cfg_dict(mk_cfg(base)), "variant": cfg_dict(mk_cfg(v)),
                                              "lens": lens, "label": label, "state": tok.state_spec(base["state"]), "skip": vopt.get("skip", 0),
                                              "obs_base": repr(tok.show_obs(oa, mo))[:400], "obs_variant": repr(tok.show_obs(ob, mo))[:400]})
        res["paths"] = stats.get("paths", 0)
        res["queries"] += stats.get("queries", 0)
    except Unsupported as e:
        res["errors"].append("unsupported: " + str(e)[:300])
    except Exception as e:
        res["errors"].append("exception: " + traceback.format_exc()[-600:])
    res["wall"] = time.time() - t0
    res["models_used"] = sorted(MD.USED)
    return res


def check_path_sanity(res, p, chars, cfgd, lens, args):
    """C04 obligations on every explored path + C09 line oracle"""
    if p.outcome.startswith("panic"):
        r, mo = model_of(p.pc)
        cc = concrete_chars(chars, mo) if mo is not None else None
        ent = {"what": p.outcome, "chars": cc, "cfg": cfg_dict(mk_cfg(cfgd)), "lens": lens, "state": tok.state_spec(_tup(cfgd["state"]))}
        if "step budget" in p.outcome:
            res["livelock"] += 1
        res["panics"].append(ent)
        return
    if p.outcome != "ok":
        return
    toks = [t for t, _ in p.tokens]
    n_eof = sum(1 for t in toks if t[0] == "EOF")
    if n_eof != 1 or toks[-1][0] != "EOF" or p.queue_left:
        r, mo = model_of(p.pc)
        res["panics"].append({"what": "totality: eof_count=%d last=%s queue_left=%s" % (n_eof, toks[-1][0] if toks else None, p.queue_left),
                              "chars": concrete_chars(chars, mo) if mo is not None else None, "cfg": cfg_dict(mk_cfg(cfgd)), "lens": lens,
                              "state": tok.state_spec(_tup(cfgd["state"]))})
    if args.get("line_oracle"):
        # every token's line == 1 + number of line breaks (LF, CR, CRLF once) in the input consumed at emission
        conds = []
        for (snap, line), pos in zip(p.tokens, p.positions):
            if pos is None or pos < 0 or pos > len(chars):
                res["errors"].append("line oracle: consumed position %r outside the input" % (pos,))
                continue
            want = line_breaks_expr(chars, pos) + 1
            conds.append((want != (line if not is_sym(line) else z3.BV2Int(line)), snap[0], line, pos))
        res["obligations"] += len(conds)
        if conds:
            s = z3.Solver()
            s.add(*p.pc)
            s.add(z3.Or([c for c, _, _, _ in conds]))
            res["queries"] += 1
            if s.check() == z3.sat:
                mo = s.model()
                bad = [(k, l, pos) for c, k, l, pos in conds if z3.is_true(mo.eval(c, model_completion=True))]
                k, l, pos = bad[0]
                res["violations"].append({"what": "token %s carries line %s but 1 + line breaks in the %d consumed characters differs" % (k, l, pos),
                                          "chars": concrete_chars(chars, mo), "base": cfg_dict(mk_cfg(cfgd)), "variant": None, "lens": lens,
                                          "label": "line-oracle", "state": tok.state_spec(_tup(cfgd["state"])),
                                          "obs_base": repr(tok.show_obs(tok.normalize(p.tokens, False, True), mo))[:400], "obs_variant": ""})


# ---------------------------------------------------------------- driver
def run_units(units, mir, ent, crate="html5ever", jobs=None):
    jobs = jobs or int(os.environ.get("VERIF_JOBS", "16"))
    with multiprocessing.Pool(jobs, initializer=_init, initargs=(mir, ent, crate)) as pool:
        return list(pool.imap_unordered(unit_diff, units, chunksize=1))


def native_obs(exe, cfg, chunks, inject=None):
    return tok.native_run(exe, tok.case_text(cfg, chunks, inject=inject))


def normalize_native(lines, keep_err=True):
    """same normalisation as tok.normalize, on the replay binary's text"""
    out = []
    for l in lines:
        if l.startswith("feeds "):
            continue
        body, _, line = l.rpartition(" @")
        if body == "Error" and not keep_err:
            continue
        if body.startswith("Chars "):
            if body == "Chars ":
                continue
            if out and out[-1][0].startswith("Chars "):
                out[-1] = (out[-1][0] + "," + body[6:], line)
                continue
        out.append((body, line))
    return out


def replay_diff(v, exe_dev, exe_rel, keep_err=True):
    """replay a differential violation natively: base vs variant on the concrete input; True iff they differ natively"""
    chars = v["chars"]
    base = mk_cfg(v["base"])
    var = mk_cfg(v["variant"]) if v.get("variant") else None
    out = {}
    for name, exe in (("dev", exe_dev), ("release", exe_rel)):
        if exe is None:
            continue
        a = native_obs(exe, base, [chars])
        if var is None:
            out[name] = {"base": a}
            continue
        vchars = chars[v.get("skip", 0):]
        chunks = split(vchars, v["lens"]) if v.get("lens") is not None else [vchars]
        b = native_obs(exe, var, chunks)
        out[name] = {"differs": normalize_native(a, keep_err) != normalize_native(b, keep_err), "base": a[:12], "variant": b[:12]}
    return out


# ---------------------------------------------------------------- C01: implementation vs WHATWG reference
def explore_ref(cfgd, chars, constraints, entities, stats):
    from spec.html_tokenizer_ref import Ref
    from mirsym.interp import Machine, PathEnd
    work = [[]]
    out = []
    while work:
        d = work.pop()
        m = Machine(None, d)
        for c in constraints:
            m.assume(c)
        try:
            r = Ref(m, chars, _tup(cfgd["state"]), cfgd["last_start_tag"], _tup(cfgd["on_start"]), cfgd["foreign"], entities)
            toks = r.run()
            out.append((list(m.pc), toks, None))
        except PathEnd:
            pass
        work.extend(m.pending)
        stats["queries"] = stats.get("queries", 0) + m.nqueries
    stats["ref_paths"] = stats.get("ref_paths", 0) + len(out)
    return out


def unit_c01(args):
    t0 = time.time()
    res = {"unit": "C01 %s %r+k=%d+%r cls=%s" % (tok.state_spec(_tup(args["state"])), "".join(map(chr, args.get("prefix") or [])), args["k"],
                                                  "".join(map(chr, args.get("suffix") or [])), args.get("classes")),
           "paths": 0, "queries": 0, "obligations": 0, "violations": [], "panics": [], "errors": [], "livelock": 0}
    try:
        k = args["k"]
        chars, cons = tok.sym_chars(k, args.get("classes"))
        prefix = args.get("prefix") or []
        for i, (lo, hi) in enumerate(args.get("char_ranges") or []):
            if lo is not None:
                cons.append(z3.And(z3.UGE(chars[i], lo), z3.ULE(chars[i], hi)))
        allch = list(prefix) + chars + list(args.get("suffix") or [])
        base = dict(args["base"])
        base["state"] = _tup(args["state"])
        stats = {}
        ents = {n: v for n, v in _PROG.entities.items() if v != (0, 0)} if args.get("entities") is None else args["entities"]
        A = tok.explore(_PROG, mk_cfg(base, constraints=cons), allch, stats=stats)
        for a in A:
            check_path_sanity(res, a, allch, base, None, args)
            if a.outcome != "ok":
                continue
            oa = tok.normalize(a.tokens, drop_errors=True, keep_lines=False)
            B = explore_ref(base, allch, cons + a.pc, ents, stats)
            for pcb, toks, _ in B:
                ob = tok.normalize(toks, drop_errors=True, keep_lines=False)
                eq = tok.obs_equal(oa, ob)
                res["obligations"] += 1
                if eq is True:
                    continue
                r, mo = model_of(pcb, [z3.Not(eq)] if eq is not False else [])
                res["queries"] += 1
                if r == z3.unsat:
                    continue
                if r != z3.sat:
                    res["errors"].append("solver unknown in obligation")
                    continue
                cc = concrete_chars(allch, mo)
                res["violations"].append({"what": "tokens differ from the WHATWG reference", "chars": cc, "base": cfg_dict(mk_cfg(base)),
                                          "variant": None, "lens": None, "label": "spec", "state": tok.state_spec(base["state"]),
                                          "obs_base": tok.show_obs(oa, mo), "obs_variant": tok.show_obs(ob, mo)})
        res["paths"] = stats.get("paths", 0)
        res["ref_paths"] = stats.get("ref_paths", 0)
        res["queries"] += stats.get("queries", 0)
    except Unsupported as e:
        res["errors"].append("unsupported: " + str(e)[:300])
    except Exception as e:
        res["errors"].append("exception: " + traceback.format_exc()[-900:])
    res["wall"] = time.time() - t0
    res["models_used"] = sorted(MD.USED)
    return res


def run_units_fn(fn, units, mir, ent, crate="html5ever", jobs=None):
    jobs = jobs or int(os.environ.get("VERIF_JOBS", "16"))
    with multiprocessing.Pool(jobs, initializer=_init, initargs=(mir, ent, crate)) as pool:
        return list(pool.imap_unordered(fn, units, chunksize=1))


def ref_concrete(cfgd, chars, entities):
    """run the reference on a concrete string (used to re-check a counter-example independently of z3)"""
    st = {}
    out = explore_ref(cfgd, chars, [], entities, st)
    assert len(out) == 1
    return tok.normalize(out[0][1], drop_errors=True, keep_lines=False)


# ---------------------------------------------------------------- C19 (a): meta charset extractor vs WHATWG reference
def unit_c19(args):
    from mirsym.interp import Machine, PathEnd, Panic
    from mirsym.models import Tendril, deref
    from spec import meta_charset_ref as R
    t0 = time.time()
    res = {"unit": "C19 %r" % (args["shape"],), "paths": 0, "queries": 0, "obligations": 0, "violations": [], "panics": [], "errors": [], "livelock": 0}
    try:
        # shape: list of items, each a concrete string or an int (= that many symbolic bytes)
        chars, cons, nsym = [], [], 0
        for it in args["shape"]:
            if isinstance(it, int):
                cs, cn = tok.sym_chars(it, [args.get("cls", 1)] * it, prefix="b%d_" % nsym)
                nsym += 1
                chars += cs
                cons += cn
            else:
                chars += [ord(c) for c in it]
        bytes_ = MD.byte_view(chars)
        work = [[]]
        while work:
            d = work.pop()
            m = Machine(_PROG, d)
            for c in cons:
                m.assume(c)
            try:
                r = m.call("extract_a_character_encoding_from_a_meta_element", [Tendril(chars)])
                got = ("some", MD.byte_view(deref(r.f[0]).ch)) if r.variant == "Some" else ("none", None)
            except Panic as e:
                got = ("panic", e.msg)
            except PathEnd:
                work.extend(m.pending)
                continue
            work.extend(m.pending)
            res["paths"] += 1
            res["queries"] += m.nqueries
            if got[0] == "panic":
                rr, mo = model_of(m.pc)
                res["panics"].append({"what": got[1], "chars": concrete_chars(chars, mo) if mo else None, "cfg": None, "lens": None, "state": "extract"})
                continue
            # reference under the same path condition
            rwork = [[]]
            while rwork:
                rd = rwork.pop()
                m2 = Machine(None, rd)
                for c in cons + m.pc:
                    m2.assume(c)
                try:
                    ref = R.extract(m2, bytes_)
                except PathEnd:
                    rwork.extend(m2.pending)
                    continue
                rwork.extend(m2.pending)
                res["queries"] += m2.nqueries
                res["obligations"] += 1
                if (ref is None) != (got[0] == "none"):
                    eq = False
                elif ref is None:
                    eq = True
                else:
                    eq = MD.seq_eq(list(got[1]), list(ref)) if len(got[1]) == len(ref) else False
                    if eq is not True and eq is not False:
                        eq = z3.simplify(eq) if not isinstance(eq, bool) else eq
                        if z3.is_true(eq):
                            eq = True
                if eq is True:
                    continue
                rr, mo = model_of(m2.pc, [z3.Not(eq)] if eq is not False else [])
                res["queries"] += 1
                if rr == z3.sat:
                    cc = concrete_chars(chars, mo)
                    res["violations"].append({"what": "extractor differs from the WHATWG algorithm", "chars": cc, "label": "extract", "state": "extract",
                                              "impl": got[0], "shape": args["shape"]})
                elif rr != z3.unsat:
                    res["errors"].append("solver unknown")
    except Unsupported as e:
        res["errors"].append("unsupported: " + str(e)[:300])
    except Exception:
        res["errors"].append("exception: " + traceback.format_exc()[-800:])
    res["wall"] = time.time() - t0
    res["models_used"] = sorted(MD.USED)
    return res


# ---------------------------------------------------------------- C10: Utf8LossyDecoder vs whole-input lossy decode
def unit_c10(args):
    from mirsym.interp import Machine, PathEnd, Panic, Ptr, Struct
    from mirsym.models import BTendril
    from spec import utf8_lossy_ref as R
    t0 = time.time()
    lens = args["lens"]
    n = sum(lens)
    res = {"unit": "C10 chunks %s" % (lens,), "paths": 0, "queries": 0, "obligations": 0, "violations": [], "panics": [], "errors": [], "livelock": 0}
    try:
        bs = [z3.BitVec("y%d" % i, 8) for i in range(n)]
        for i, v in (args.get("fixed") or {}).items():
            bs[int(i)] = v
        work = [[]]
        while work:
            d = work.pop()
            m = Machine(_PROG, d)
            try:
                dec = m.call("Utf8LossyDecoder::new", [Struct("Sink", [])])
                dp = Ptr([dec], 0)
                pos = 0
                for l in lens:
                    m.call("<Utf8LossyDecoder as TendrilSink>::process", [dp, BTendril(bs[pos:pos + l])])
                    pos += l
                m.call("<Utf8LossyDecoder as TendrilSink>::finish", [dec])
                got = (list(m.notes.get("sink_bytes", [])), m.notes.get("sink_errors", 0))
                outcome = "ok"
            except Panic as e:
                outcome = "panic: " + e.msg
            except PathEnd:
                work.extend(m.pending)
                continue
            work.extend(m.pending)
            res["paths"] += 1
            res["queries"] += m.nqueries
            if outcome != "ok":
                rr, mo = model_of(m.pc)
                res["panics"].append({"what": outcome, "chars": [mo.eval(x, model_completion=True).as_long() if is_sym(x) else x for x in bs] if mo else None,
                                      "cfg": None, "lens": lens, "state": "decoder"})
                continue
            rwork = [[]]
            while rwork:
                rd = rwork.pop()
                m2 = Machine(None, rd)
                for c in m.pc:
                    m2.assume(c)
                try:
                    want, errs = R.decode(m2, bs)
                except PathEnd:
                    rwork.extend(m2.pending)
                    continue
                rwork.extend(m2.pending)
                res["queries"] += m2.nqueries
                res["obligations"] += 1
                if len(want) != len(got[0]) or errs != got[1]:
                    eq = False
                else:
                    eq = MD.seq_eq(got[0], want)
                if eq is True:
                    continue
                rr, mo = model_of(m2.pc, [z3.Not(eq)] if eq is not False else [])
                res["queries"] += 1
                if rr == z3.sat:
                    cc = [mo.eval(x, model_completion=True).as_long() if is_sym(x) else x for x in bs]
                    res["violations"].append({"what": "decoded stream / error count differs from a whole-input lossy decode", "chars": cc, "lens": lens,
                                              "label": "decoder", "state": "decoder", "errors_impl": got[1], "errors_ref": errs})
                elif rr != z3.unsat:
                    res["errors"].append("solver unknown")
    except Unsupported as e:
        res["errors"].append("unsupported: " + str(e)[:300])
    except Exception:
        res["errors"].append("exception: " + traceback.format_exc()[-800:])
    res["wall"] = time.time() - t0
    res["models_used"] = sorted(MD.USED)
    return res


# ---------------------------------------------------------------- C15: absolute text-normalisation oracle for the XML tokenizer
def unit_xmlnorm(args):
    """Data (or attribute value) text: output characters == resolved prefix + normalise(symbolic characters), where
    normalise maps CR LF -> LF, CR -> LF, NUL -> U+FFFD and nothing else.  Symbolic characters exclude the markup
    characters given in args['exclude'] so that they stay character data."""
    from mirsym.interp import Machine, PathEnd
    t0 = time.time()
    res = {"unit": "C15norm %r+%d+%r %s" % (args["prefix"], args["k"], args.get("suffix", ""), args.get("where", "text")),
           "paths": 0, "queries": 0, "obligations": 0, "violations": [], "panics": [], "errors": [], "livelock": 0}
    try:
        k = args["k"]
        chars, cons = tok.sym_chars(k, args.get("classes"))
        for c in chars:
            for x in args.get("exclude", "<&"):
                cons.append(c != ord(x))
        pre = [ord(c) for c in args["prefix"]]
        suf = [ord(c) for c in args.get("suffix", "")]
        allch = pre + chars + suf
        base = dict(args["base"])
        stats = {}
        lens_list = [None] + [l for l in args.get("chunkings", [])]
        for lens in lens_list:
            chunks = split(allch, lens) if lens is not None else None
            for ee in (False, True):
                A = tok.explore(_PROG, mk_cfg(dict(base, exact_errors=ee), constraints=cons, chunks=chunks), allch, stats=stats)
                for a in A:
                    check_path_sanity(res, a, allch, dict(base, exact_errors=ee), lens, args)
                    if a.outcome != "ok":
                        continue
                    # observed text
                    if args.get("where") == "attr":
                        got = None
                        for t, _ in a.tokens:
                            if t[0] == "XTag" and t[3]:
                                got = list(t[3][0][1])
                        if got is None:
                            got = ["<no attribute>"]
                    else:
                        got = []
                        for t, _ in a.tokens:
                            if t[0] == "Chars":
                                got.extend(t[1])
                    # expected text under this path's condition (normalisation forks on CR / LF / NUL)
                    work = [[]]
                    while work:
                        d = work.pop()
                        m2 = Machine(None, d)
                        for c in cons + a.pc:
                            m2.assume(c)
                        try:
                            exp = list(args["resolved"])
                            prev_cr = False
                            for c in chars:
                                if prev_cr:
                                    prev_cr = False
                                    if m2.branch_bool(c == 0x0A, "norm LF after CR"):
                                        continue
                                if m2.branch_bool(c == 0x0D, "norm CR"):
                                    exp.append(0x0A)
                                    prev_cr = True
                                elif m2.branch_bool(c == 0, "norm NUL"):
                                    exp.append(0xFFFD)
                                else:
                                    exp.append(c)
                            exp += [ord(x) for x in args.get("resolved_suffix", "")]
                        except PathEnd:
                            work.extend(m2.pending)
                            continue
                        work.extend(m2.pending)
                        res["queries"] += m2.nqueries
                        res["obligations"] += 1
                        eq = MD.seq_eq(got, exp) if len(got) == len(exp) and not any(isinstance(g, str) for g in got) else False
                        if eq is True:
                            continue
                        rr, mo = model_of(m2.pc, [z3.Not(eq)] if eq is not False else [])
                        res["queries"] += 1
                        if rr == z3.sat:
                            cc = concrete_chars(allch, mo)
                            res["violations"].append({"what": "XML character data is not the normalised input", "chars": cc, "lens": lens, "label": "xmlnorm",
                                                      "state": tok.state_spec(_tup(base["state"])), "base": cfg_dict(mk_cfg(dict(base, exact_errors=ee))), "variant": None,
                                                      "expected": tok.show_obs([tuple(exp)], mo), "got": tok.show_obs([tuple(got)], mo) if not any(isinstance(g, str) for g in got) else got,
                                                      "where": args.get("where", "text"), "nsuffix": len(suf), "nprefix": len(pre), "resolved": args["resolved"],
                                                      "resolved_suffix": args.get("resolved_suffix", "")})
                        elif rr != z3.unsat:
                            res["errors"].append("solver unknown")
        res["paths"] = stats.get("paths", 0)
        res["queries"] += stats.get("queries", 0)
    except Unsupported as e:
        res["errors"].append("unsupported: " + str(e)[:300])
    except Exception:
        res["errors"].append("exception: " + traceback.format_exc()[-900:])
    res["wall"] = time.time() - t0
    res["models_used"] = sorted(MD.USED)
    return res


# ---------------------------------------------------------------- C17: XML serializer output re-tokenizes / re-scopes to the same namespaced tree
def _sym_letter(name, cons):
    v = z3.BitVec(name, 32)
    MD.CHAR_CLASS[name] = 1
    cons.append(z3.And(z3.UGE(v, 0x61), z3.ULE(v, 0x7A)))
    return v


def unit_c17(args):
    """shape: list of events  ('start', elem, [attrs]) | ('end', elem) | ('text', k)
       elem/attr names are dicts {p: None|'p0'|..., u: None|'u0'|..., l: 'a'}: p*/u* name symbolic one-letter atoms."""
    from mirsym.interp import Machine, PathEnd, Panic, Ptr, Struct, Enum
    from mirsym.models import Atom, Iter, some, none, Tup
    t0 = time.time()
    res = {"unit": "C17 %s" % args["name"], "paths": 0, "queries": 0, "obligations": 0, "violations": [], "panics": [], "errors": [], "livelock": 0}
    try:
        cons = []
        syms = {}

        def sym(n):
            if n not in syms:
                syms[n] = _sym_letter("s_" + n, cons)
            return syms[n]

        def atom(x):
            return Atom([sym(x)]) if x else Atom([])

        def qn(d):
            return Struct("QualName", [some(atom(d["p"])) if d["p"] else none(), atom(d["u"]), Atom([ord(c) for c in d["l"]])])

        # well-formedness of the input tree: names in scope that share a prefix share the URI (a parsed tree always does)
        for (a_, b_) in args.get("same_prefix_same_uri", []):
            cons.append(z3.Implies(sym(a_[0]) == sym(b_[0]), sym(a_[1]) == sym(b_[1])))
        for (a_, b_) in args.get("distinct", []):
            cons.append(sym(a_) != sym(b_))
        texts = {}
        work = [[]]
        while work:
            d = work.pop()
            m = Machine(_PROG, d)
            for c in cons:
                m.assume(c)
            try:
                ser = m.call("XmlSerializer::new", [Struct("Wr", [])])
                sp = Ptr([ser], 0)
                nt = 0
                for ei, ev in enumerate(args["shape"]):
                    if ev[0] == "start":
                        attrs = [Tup([Ptr([qn(a)], 0), Ptr([Str_(texts, cons, "av%d_%d" % (ei, i), a.get("vk", 0), a.get("v", ""))], 0)]) for i, a in enumerate(ev[2])]
                        m.call("<XmlSerializer as Serializer>::start_elem", [sp, qn(ev[1]), Iter(attrs, "attrs")])
                    elif ev[0] == "end":
                        m.call("<XmlSerializer as Serializer>::end_elem", [sp, qn(ev[1])])
                    elif ev[0] == "text":
                        m.call("<XmlSerializer as Serializer>::write_text", [sp, Ptr([Str_(texts, cons, "t%d" % nt, ev[1], "")], 0)])
                        nt += 1
                out = list(m.notes.get("out", []))
                outcome = "ok"
            except Panic as e:
                outcome = "panic: " + e.msg
            except PathEnd:
                work.extend(m.pending)
                continue
            work.extend(m.pending)
            res["paths"] += 1
            res["queries"] += m.nqueries
            if outcome != "ok":
                res["panics"].append({"what": outcome, "chars": None, "cfg": None, "lens": None, "state": "serializer"})
                continue
            # the output, as characters, through the interpreted XML tokenizer under this path's condition
            chars = [z3.ZeroExt(24, b) if is_sym(b) else b for b in out]
            base = {"exact_errors": False, "discard_bom": False, "profile": False, "last_start_tag": None, "on_start": "Continue", "foreign": False,
                    "simd": True, "dialect": "xml", "state": "Data"}
            st = {}
            T = tok.explore(_PROG, mk_cfg(base, constraints=cons + m.pc), chars, stats=st)
            res["queries"] += st.get("queries", 0)
            for tp in T:
                res["obligations"] += 1
                if tp.outcome != "ok":
                    res["panics"].append({"what": "tokenizer on serializer output: " + tp.outcome, "chars": None, "cfg": None, "lens": None, "state": "retokenize"})
                    continue
                bad = compare_c17(args["shape"], syms, texts, tp.tokens)
                if bad is True:
                    continue
                rr, mo = model_of(tp.pc, [bad] if bad is not False and not isinstance(bad, str) else [])
                res["queries"] += 1
                if isinstance(bad, str) or rr == z3.sat:
                    mo = mo or model_of(tp.pc)[1]
                    res["violations"].append({"what": "serializer output does not re-scan to the same namespaced tree: %s" % (bad if isinstance(bad, str) else "names/values differ"),
                                              "label": "xmlser", "state": args["name"], "chars": concrete_chars(chars, mo) if mo else None,
                                              "syms": {k: (mo.eval(v, model_completion=True).as_long() if mo else None) for k, v in syms.items()},
                                              "texts": {k: concrete_chars(v, mo) if mo else None for k, v in texts.items()}, "shape": args["name"]})
                elif rr != z3.unsat:
                    res["errors"].append("solver unknown")
    except Unsupported as e:
        res["errors"].append("unsupported: " + str(e)[:300])
    except Exception:
        res["errors"].append("exception: " + traceback.format_exc()[-900:])
    res["wall"] = time.time() - t0
    res["models_used"] = sorted(MD.USED)
    return res


def Str_(texts, cons, key, k, lit):
    """a &str made of k symbolic ASCII characters (recorded under `key`) followed by the literal"""
    from mirsym.interp import Str
    if key not in texts:
        cs, cn = tok.sym_chars(k, [1] * k, prefix=key + "_")
        # NUL never occurs in a tree produced by the parser (input preprocessing and '&#0;' both give U+FFFD);
        # CR does (through '&#13;'), so it stays in
        for c in cs:
            cn += [c != 0]
        cons.extend(cn)
        texts[key] = cs + [ord(x) for x in lit]
    return Str(texts[key])


UNBOUND = 0x7F


def compare_c17(shape, syms, texts, tokens):
    """lexically resolve the re-tokenized output and compare with the input tree.
    -> True (equal) | z3 Bool (condition under which they DIFFER) | str (structural mismatch)"""
    toks = [t for t, _ in tok.normalize(tokens, drop_errors=True, keep_lines=False)] if False else [t for t, _ in tokens if t[0] != "Error"]
    # merge adjacent character tokens
    merged = []
    for t in toks:
        if t[0] == "Chars" and merged and merged[-1][0] == "Chars":
            merged[-1] = ("Chars", merged[-1][1] + t[1])
        else:
            merged.append(t)
    toks = [t for t in merged if t[0] != "EOF"]
    events = list(shape)
    if len(toks) != len(events):
        return "token count %d vs %d events: %s" % (len(toks), len(events), tok.show_obs(toks)[:6])
    diffs = []
    scopes = [[]]          # stack of lists of (prefix char or None, uri char or 0)
    nt = 0

    def resolve(p):
        """URI bound to prefix p (a char term or None) as a z3 term: innermost declaration first"""
        e = z3.BitVecVal(0 if p is None else UNBOUND, 32)
        for sc in scopes:                   # outermost first, so that inner declarations wrap outer ones
            for (dp, du) in sc:
                if (dp is None) != (p is None):
                    continue
                cond = True if p is None else (dp == p)
                e = du if cond is True else z3.If(cond, du, e)
        return e

    for ei, (ev, t) in enumerate(zip(events, toks)):
        if ev[0] == "text":
            if t[0] != "Chars":
                return "expected character data, got %s" % (t[0],)
            want = texts["t%d" % nt]
            nt += 1
            if len(t[1]) != len(want):
                return "text length %d vs %d" % (len(t[1]), len(want))
            diffs += [a != b for a, b in zip(t[1], want) if not (isinstance(a, int) and isinstance(b, int) and a == b)]
            continue
        if t[0] != "XTag":
            return "expected a tag, got %s" % (t[0],)
        kind, name, attrs = t[1], t[2], t[3]
        el = ev[1]
        if ev[0] == "start":
            if kind != "StartTag":
                return "expected start tag, got %s" % kind
            decl = []
            plain = []
            for (an, av) in attrs:
                apre, aloc = an
                if apre is not None and len(apre) == 5 and all(isinstance(x, int) for x in apre) and "".join(map(chr, apre)) == "xmlns":
                    if len(aloc) != 1 or len(av) > 1:
                        return "unexpected xmlns declaration shape"
                    decl.append((aloc[0], av[0] if av else z3.BitVecVal(0, 32)))
                elif apre is None and len(aloc) == 5 and all(isinstance(x, int) for x in aloc) and "".join(map(chr, aloc)) == "xmlns":
                    decl.append((None, av[0] if av else z3.BitVecVal(0, 32)))
                else:
                    plain.append((an, av))
            scopes.append(decl)
            want_attrs = ev[2]
            if len(plain) != len(want_attrs):
                return "attribute count %d vs %d" % (len(plain), len(want_attrs))
            for ai, ((an, av), wa) in enumerate(zip(plain, want_attrs)):
                d = name_diff(an, wa, syms, resolve, is_attr=True)
                if isinstance(d, str):
                    return d
                diffs += d
                wv = texts["av%d_%d" % (ei, ai)]
                if len(av) != len(wv):
                    return "attribute value length %d vs %d" % (len(av), len(wv))
                diffs += [a != b for a, b in zip(av, wv) if not (isinstance(a, int) and isinstance(b, int) and a == b)]
        else:
            if kind != "EndTag":
                return "expected end tag, got %s" % kind
        d = name_diff(name, el, syms, resolve, is_attr=False)
        if isinstance(d, str):
            return d
        diffs += d
        if ev[0] == "end":
            scopes.pop()
    diffs = [x for x in diffs if x is not False]
    if not diffs:
        return True
    if any(x is True for x in diffs):
        return "names differ concretely"
    return z3.Or(diffs) if len(diffs) > 1 else diffs[0]


def name_diff(got, want, syms, resolve, is_attr):
    """got = (prefix chars or None, local chars); want = {p,u,l}.  -> list of 'differs' conditions or str"""
    gpre, gloc = got
    wl = [ord(c) for c in want["l"]]
    if len(gloc) != len(wl) or any(isinstance(a, int) and a != b for a, b in zip(gloc, wl)):
        return "local name differs"
    out = [a != b for a, b in zip(gloc, wl) if not isinstance(a, int)]
    if (gpre is None) != (want["p"] is None):
        return "prefix presence differs for %s" % want["l"]
    p = None
    if gpre is not None:
        if len(gpre) != 1:
            return "prefix length"
        p = gpre[0]
        out.append(p != syms[want["p"]])
    wu = syms[want["u"]] if want["u"] else z3.BitVecVal(0, 32)
    if is_attr and gpre is None:
        uri = z3.BitVecVal(0, 32)                 # unprefixed attributes are in no namespace
    else:
        uri = resolve(p)
    out.append(uri != wu)
    return out


# ---------------------------------------------------------------- C16: XML tree builder resolves namespaces by lexical scope
def unit_c16(args):
    """shape: list of tags (kind, (prefix, local), [(prefix, local, value), ...]); strings starting with '$' are symbolic
    one-letter atoms (prefixes / URIs), everything else is literal.  The builder's create_element calls are compared with
    a lexical-scope resolver."""
    from mirsym.interp import Machine, PathEnd, Panic, Ptr, Struct, Enum
    from mirsym.models import Atom, VecM, Tendril, some, none
    t0 = time.time()
    res = {"unit": "C16 %s" % args["name"], "paths": 0, "queries": 0, "obligations": 0, "violations": [], "panics": [], "errors": [], "livelock": 0}
    try:
        cons, syms = [], {}

        def val(x):
            """atom text: list of chars"""
            if x is None:
                return None
            if x.startswith("$"):
                if "concrete" in args:
                    return [args["concrete"][x]]
                if x not in syms:
                    syms[x] = _sym_letter("c16_" + x[1:], cons)
                return [syms[x]]
            return [ord(c) for c in x]

        for (a_, b_) in args.get("distinct", []):
            val(a_), val(b_)
            cons.append(syms[a_] != syms[b_])
        XMLNS = "http://www.w3.org/2000/xmlns/"
        work = [[]]
        while work:
            d = work.pop()
            m = Machine(_PROG, d)
            for c in cons:
                m.assume(c)
            try:
                mk = lambda path, f=(): m.prog.make_adt(m, path, list(f), None)

                def qn(p, l):
                    return Struct("QualName", [some(Atom(val(p))) if p is not None else none(), Atom([]), Atom(val(l))])
                tb = m.call("XmlTreeBuilder::new", [Struct("Sink", []), Struct("XmlTreeBuilderOpts", [])])
                tbp = Ptr([tb], 0)
                for (kind, name, attrs) in args["shape"]:
                    av = VecM([Struct("Attribute", [qn(p, l), Tendril(val(v) if v else [])]) for (p, l, v) in attrs])
                    tag = Struct("Tag", [mk("tokenizer::interface::TagKind::" + kind), qn(*name), av])
                    m.call("<XmlTreeBuilder as TokenSink>::process_token", [tbp, mk("tokenizer::interface::Token::Tag", [tag])])
                m.call("<XmlTreeBuilder as TokenSink>::process_token", [tbp, mk("tokenizer::interface::Token::EndOfFile")])
                calls = [c for c in m.notes.get("tree", {}).get("calls", []) if c[0] == "create_element"]
                outcome = "ok"
            except Panic as e:
                outcome = "panic: " + e.msg
            except PathEnd:
                work.extend(m.pending)
                continue
            work.extend(m.pending)
            res["paths"] += 1
            res["queries"] += m.nqueries
            if "concrete" in args:
                res["dump"] = c16_dump(calls) if outcome == "ok" else outcome
                continue
            if outcome != "ok":
                rr, mo = model_of(cons + list(m.pc))
                res["panics"].append({"what": outcome, "chars": None, "cfg": None, "lens": None, "state": args["name"],
                                      "syms": {k: mo.eval(v, model_completion=True).as_long() for k, v in syms.items()} if mo else None})
                continue
            # ---- oracle: lexical scoping, under this path's condition (equalities between symbolic atoms fork) -----------
            rwork = [[]]
            while rwork:
                rd = rwork.pop()
                m2 = Machine(None, rd)
                for c in cons + m.pc:
                    m2.assume(c)
                try:
                    exp = c16_oracle(m2, args["shape"], val)
                except PathEnd:
                    rwork.extend(m2.pending)
                    continue
                except OutOfScope:
                    rwork.extend(m2.pending)
                    res["out_of_scope"] = res.get("out_of_scope", 0) + 1
                    continue
                rwork.extend(m2.pending)
                res["queries"] += m2.nqueries
                res["obligations"] += 1
                bad = c16_compare(calls, exp)
                if bad is True:
                    continue
                rr, mo = model_of(m2.pc, [bad] if not isinstance(bad, str) else [])
                res["queries"] += 1
                if isinstance(bad, str) or rr == z3.sat:
                    mo = mo or model_of(m2.pc)[1]
                    res["violations"].append({"what": "created elements differ from lexical-scope resolution: %s" % (bad if isinstance(bad, str) else "namespace / attribute differs"),
                                              "label": "xmlns", "state": args["name"], "shape": args["name"],
                                              "syms": {k: mo.eval(v, model_completion=True).as_long() for k, v in syms.items()} if mo else {},
                                              "got": [(repr(c[2]), [repr(x) for x in c[3]]) for c in calls][:6]})
                elif rr != z3.unsat:
                    res["errors"].append("solver unknown")
    except Unsupported as e:
        res["errors"].append("unsupported: " + str(e)[:300])
    except Exception:
        res["errors"].append("exception: " + traceback.format_exc()[-900:])
    res["wall"] = time.time() - t0
    res["models_used"] = sorted(MD.USED)
    return res


class OutOfScope(Exception):
    """the path's atom equalities make the shape one the tokenizer cannot emit (two attributes with one qualified name)"""


XML_URI = [ord(c) for c in "http://www.w3.org/XML/1998/namespace"]
XMLNS_URI = [ord(c) for c in "http://www.w3.org/2000/xmlns/"]


def c16_oracle(m, shape, val):
    """-> list of (prefix chars|None, ns chars, local chars, [(prefix|None, ns, local, value)]): the elements the builder
    must create, in order.  Namespaces in XML by lexical scope, written from the recommendation and XML5's tree construction,
    not from the implementation:
      * a start / empty tag's own declarations are visible to that tag's names and (start tag only) to its descendants, never
        to siblings, ancestors or following content; innermost declaration wins;
      * the default namespace applies to unprefixed element names only; unprefixed attributes have no namespace;
      * `xml` is bound to the XML namespace and `xmlns` to the XMLNS namespace, neither can be re-bound, and the XMLNS URI
        cannot be declared;
      * an empty declaration un-binds (default or prefix); an unbound / undeclared prefix leaves the name in no namespace;
      * declarations are namespace information, not attributes: they do not appear in the attribute list;
      * a prefixed attribute is dropped iff an earlier prefixed attribute of the same tag has the same expanded name;
      * tree construction: an end tag closes up to and including the nearest open element with the same expanded name and
        is ignored when there is none; `</>` closes the current element; after the root element closes nothing is created.
    """
    def eq(a, b):
        if a is None or b is None:
            return a is None and b is None
        c = MD.seq_eq(a, b)
        return c if isinstance(c, bool) else m.branch_bool(c, "oracle atom eq")
    XMLNS = [ord(c) for c in "xmlns"]
    XML = [ord(c) for c in "xml"]
    base = [(XML, XML_URI), (XMLNS, XMLNS_URI)]
    open_ = []           # [(ns, local, own declarations)]
    out = []

    def lookup(p, extra):
        for sc in [extra] + [o[2] for o in open_[::-1]] + [base]:
            for (dp, du) in sc[::-1]:
                if eq(dp, p):
                    return du
        return []
    started = ended = False
    for (kind, name, attrs) in shape:
        if ended:
            continue
        if kind in ("StartTag", "EmptyTag"):
            own = []
            for (p, l, v) in attrs:
                pv, lv, vv = val(p), val(l), (val(v) if v else [])
                is_pref = pv is not None and eq(pv, XMLNS)
                is_def = pv is None and eq(lv, XMLNS)
                if not (is_pref or is_def):
                    continue
                key = lv if is_pref else None
                if any(eq(d[0], key) for d in own):
                    raise OutOfScope()
                if eq(vv, XMLNS_URI):
                    continue
                if is_pref and eq(lv, XMLNS):
                    continue
                if is_pref and eq(lv, XML):
                    continue                   # (binding xml to the XML namespace changes nothing; anything else is refused)
                own.append((key, vv))
            res_attrs, seen, names = [], [], []
            for (p, l, v) in attrs:
                pv, lv, vv = val(p), val(l), (val(v) if v else [])
                for (qp, ql) in names:
                    # the XML tokenizer's duplicate check compares the *whole* new name with the local part of the earlier ones, so it
                    # removes a repeated unprefixed name only; a repeated prefixed name (`a:x a:x`) does reach the tree builder,
                    # whose expanded-name check must drop the second one - that case stays in scope
                    if pv is None and qp is None and eq(ql, lv):
                        raise OutOfScope()
                names.append((pv, lv))
                if (pv is not None and eq(pv, XMLNS)) or (pv is None and eq(lv, XMLNS)):
                    continue
                if pv is None:
                    res_attrs.append((None, [], lv, vv))
                    continue
                ns = lookup(pv, own)
                if any(eq(sn, ns) and eq(sl, lv) for (sn, sl) in seen):
                    continue
                seen.append((ns, lv))
                res_attrs.append((pv, ns, lv, vv))
            pn, ln = val(name[0]), val(name[1])
            ens = lookup(pn, own)
            out.append((pn, ens, ln, res_attrs))
            if kind == "StartTag":
                open_.append((ens, ln, own))
                started = True
            elif not started:
                ended = True
        elif kind == "EndTag":
            if not started:
                continue
            pn, ln = val(name[0]), val(name[1])
            ns = lookup(pn, [])
            for i in range(len(open_) - 1, -1, -1):
                if eq(open_[i][0], ns) and eq(open_[i][1], ln):
                    del open_[i:]
                    break
            if not open_:
                ended = True
        elif kind == "ShortTag":
            if not started:
                continue
            open_.pop()
            if not open_:
                ended = True
    return out


def c16_dump(calls):
    """created elements of a concrete run in the text form of the native `xmltree` replay"""
    hx = lambda ch: bytes(ch).decode("latin1").encode("utf-8").hex()
    def qn(q):
        pre, qns, loc = q.f
        return "%s:%s:%s" % (hx(pre.f[0].ch) if pre.variant == "Some" else "-", hx(qns.ch), hx(loc.ch))
    return ["elem %s [%s]" % (qn(q), " ".join("%s=%s" % (qn(a.f[0]), hx(a.f[1].ch)) for a in attrs)) for (_, h, q, attrs) in calls]


def c16_expected_text(shape, concrete):
    """the oracle on concrete atoms, same text form"""
    hx = lambda ch: bytes(ch).decode("latin1").encode("utf-8").hex()
    val = lambda x: None if x is None else ([concrete[x]] if x.startswith("$") else [ord(c) for c in x])
    exp = c16_oracle(None, shape, val)
    qn = lambda p, n, l: "%s:%s:%s" % (hx(p) if p is not None else "-", hx(n), hx(l))
    return ["elem %s [%s]" % (qn(pn, ns, ln), " ".join("%s=%s" % (qn(ap, an, al), hx(av)) for (ap, an, al, av) in at)) for (pn, ns, ln, at) in exp]


def c16_native_text(exe, shape, concrete):
    import subprocess
    val = lambda x: "-" if x is None else ((chr(concrete[x]) if x.startswith("$") else x).encode().hex() or "")
    lines = ["mode xmltree"]
    for (kind, name, attrs) in shape:
        l = "tag %s %s %s" % (kind, val(name[0]), val(name[1]))
        for (p_, l_, v_) in attrs:
            l += " %s %s %s" % (val(p_), val(l_), val(v_) if v_ else "")
        lines.append(l)
    p = subprocess.run([exe], input=("\n".join(lines) + "\n").encode(), stdout=subprocess.PIPE, stderr=subprocess.PIPE, timeout=30)
    if p.returncode != 0:
        err = p.stderr.decode(errors="replace").splitlines()
        msg = " ".join(l.strip() for i, l in enumerate(err) if "panicked at" in l or (i > 0 and "panicked at" in err[i - 1]))
        return ["EXIT %d %s" % (p.returncode, msg[:300])], "\n".join(lines)
    return p.stdout.decode().splitlines(), "\n".join(lines)


def c16_compare(calls, exp):
    if len(calls) != len(exp):
        return "builder created %d elements, %d expected" % (len(calls), len(exp))
    diffs = []
    for (_, h, q, attrs), (pn, ns, ln, eattrs) in zip(calls, exp):
        d = _qn_diff(q, pn, ns, ln)
        if isinstance(d, str):
            return d
        diffs += d
        if len(attrs) != len(eattrs):
            return "element has %d attributes, %d expected" % (len(attrs), len(eattrs))
        for a, (ap, ans, al, av) in zip(attrs, eattrs):
            d = _qn_diff(a.f[0], ap, ans, al)
            if isinstance(d, str):
                return d
            diffs += d
            v = a.f[1].ch
            if len(v) != len(av):
                return "attribute value length"
            e = MD.seq_eq(v, av)
            if e is False:
                return "attribute value differs"
            if e is not True:
                diffs.append(z3.Not(e))
    diffs = [x for x in diffs if x is not False]
    if not diffs:
        return True
    return z3.Or(diffs) if len(diffs) > 1 else diffs[0]


def _qn_diff(q, pn, ns, ln):
    pre, qns, loc = q.f
    gp = pre.f[0].ch if pre.variant == "Some" else None
    if (gp is None) != (pn is None):
        return "prefix presence differs"
    out = []
    for got, want in ((gp, pn), (qns.ch, ns), (loc.ch, ln)):
        if got is None:
            continue
        if len(got) != len(want):
            return "name component length differs: got %r expected %r" % (tok.show_obs([tuple(got)]), tok.show_obs([tuple(want)]))
        e = MD.seq_eq(list(got), list(want))
        if e is False:
            return "name component differs: got %r expected %r" % (tok.show_obs([tuple(got)]), tok.show_obs([tuple(want)]))
        if e is not True:
            out.append(z3.Not(e))
    return out
