/// Well-formed UTF-8 per Unicode table 3-7 (the predicate core::str::from_utf8 implements).
pub fn valid_utf8(b: &[u8]) -> bool {
    let mut i = 0;
    while i < b.len() {
        let c = b[i];
        if c < 0x80 {
            i += 1;
        } else if c >= 0xC2 && c <= 0xDF {
            if i + 1 >= b.len() || b[i + 1] & 0xC0 != 0x80 {
                return false;
            }
            i += 2;
        } else if c >= 0xE0 && c <= 0xEF {
            if i + 2 >= b.len() {
                return false;
            }
            let (lo, hi) = match c {
                0xE0 => (0xA0, 0xBF),
                0xED => (0x80, 0x9F),
                _ => (0x80, 0xBF),
            };
            if b[i + 1] < lo || b[i + 1] > hi || b[i + 2] & 0xC0 != 0x80 {
                return false;
            }
            i += 3;
        } else if c >= 0xF0 && c <= 0xF4 {
            if i + 3 >= b.len() {
                return false;
            }
            let (lo, hi) = match c {
                0xF0 => (0x90, 0xBF),
                0xF4 => (0x80, 0x8F),
                _ => (0x80, 0xBF),
            };
            if b[i + 1] < lo
                || b[i + 1] > hi
                || b[i + 2] & 0xC0 != 0x80
                || b[i + 3] & 0xC0 != 0x80
            {
                return false;
            }
            i += 4;
        } else {
            return false;
        }
    }
    true
}

/// length in bytes of the UTF-8 sequence starting with lead byte `c` (input assumed valid)
pub fn seq_len(c: u8) -> usize {
    if c < 0x80 {
        1
    } else if c < 0xE0 {
        2
    } else if c < 0xF0 {
        3
    } else {
        4
    }
}

/// decode the scalar value of the first character of a valid UTF-8 string
pub fn first_char(b: &[u8]) -> u32 {
    let c = b[0] as u32;
    match seq_len(b[0]) {
        1 => c,
        2 => ((c & 0x1F) << 6) | (b[1] as u32 & 0x3F),
        3 => ((c & 0x0F) << 12) | ((b[1] as u32 & 0x3F) << 6) | (b[2] as u32 & 0x3F),
        _ => {
            ((c & 0x07) << 18)
                | ((b[1] as u32 & 0x3F) << 12)
                | ((b[2] as u32 & 0x3F) << 6)
                | (b[3] as u32 & 0x3F)
        },
    }
}
