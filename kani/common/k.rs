// Shared by every engine-K harness crate (included with #[path]).
//
// Under `cargo kani` (cfg(kani)) `any`/`assume` are Kani's: inputs are symbolic and
// the solver decides.  In an ordinary build they read the concrete values of a
// counter-example from a queue, so the *same harness body* is replayed natively
// against the real code (dev and release profile) before anything is reported.

#[cfg(kani)]
pub use kani::{any, assume};

#[cfg(kani)]
#[macro_export]
macro_rules! kcover {
    ($($t:tt)*) => { kani::cover!($($t)*) };
}
#[cfg(not(kani))]
#[macro_export]
macro_rules! kcover {
    ($($t:tt)*) => {};
}

#[cfg(not(kani))]
mod native {
    use std::cell::RefCell;
    use std::collections::VecDeque;
    thread_local! {
        static Q: RefCell<VecDeque<Vec<u8>>> = RefCell::new(VecDeque::new());
    }
    pub fn load(vals: Vec<Vec<u8>>) {
        Q.with(|q| *q.borrow_mut() = vals.into());
    }
    pub fn left() -> usize {
        Q.with(|q| q.borrow().len())
    }
    fn pop(n: usize) -> Vec<u8> {
        Q.with(|q| {
            let v = q.borrow_mut().pop_front().unwrap_or_else(|| {
                // VERIF_REPLAY_FILL=<hex byte>: when the solver's verdict came without extractable values, the harness
                // is tried on a uniform filling instead (a failure that reproduces this way is still a concrete one)
                if let Ok(f) = std::env::var("VERIF_REPLAY_FILL") {
                    if let Ok(b) = u8::from_str_radix(&f, 16) {
                        return vec![b; n];
                    }
                }
                println!("REPLAY-MISMATCH: value queue exhausted");
                std::process::exit(3)
            });
            if v.len() != n {
                println!("REPLAY-MISMATCH: wanted {} bytes, counter-example has {}", n, v.len());
                std::process::exit(3)
            }
            v
        })
    }
    pub trait Arb: Sized {
        fn arb() -> Self;
    }
    macro_rules! int {
        ($($t:ty),*) => {$(
            impl Arb for $t {
                fn arb() -> $t {
                    let v = pop(core::mem::size_of::<$t>());
                    let mut a = [0u8; core::mem::size_of::<$t>()];
                    a.copy_from_slice(&v);
                    <$t>::from_le_bytes(a)
                }
            }
        )*};
    }
    int!(u8, u16, u32, u64, u128, usize, i8, i16, i32, i64, isize);
    impl Arb for bool {
        fn arb() -> bool {
            pop(1)[0] & 1 == 1
        }
    }
    impl Arb for char {
        fn arb() -> char {
            let v = <u32 as Arb>::arb();
            char::from_u32(v).unwrap_or_else(|| {
                println!("REPLAY-MISMATCH: invalid char");
                std::process::exit(3)
            })
        }
    }
    impl<T: Arb, const N: usize> Arb for [T; N] {
        fn arb() -> [T; N] {
            core::array::from_fn(|_| T::arb())
        }
    }
    pub fn any<T: Arb>() -> T {
        T::arb()
    }
    pub fn assume(c: bool) {
        if !c {
            println!("REPLAY-MISMATCH: an assumption of the harness does not hold for these values");
            std::process::exit(3)
        }
    }
}
#[cfg(not(kani))]
pub use native::{any, assume, left, load};

/// Native replay entry: `replay <harness> <hex,hex,...>`; exit 0 = harness passed on these
/// values, 101 (panic) = the assertion fails natively too, 3 = values do not fit the harness.
#[cfg(not(kani))]
pub fn replay_main(table: &[(&str, fn())]) {
    let a: Vec<String> = std::env::args().collect();
    if a.len() < 2 {
        for (n, _) in table {
            println!("{n}");
        }
        return;
    }
    let vals: Vec<Vec<u8>> = if a.len() > 2 && !a[2].is_empty() {
        a[2].split(',')
            .map(|h| {
                (0..h.len() / 2)
                    .map(|i| u8::from_str_radix(&h[2 * i..2 * i + 2], 16).unwrap())
                    .collect()
            })
            .collect()
    } else {
        vec![]
    };
    load(vals);
    let f = table
        .iter()
        .find(|(n, _)| *n == a[1])
        .unwrap_or_else(|| {
            println!("REPLAY-MISMATCH: unknown harness {}", a[1]);
            std::process::exit(3)
        })
        .1;
    f();
    println!("REPLAY-PASS: harness {} holds natively on these values", a[1]);
}
