use crate::k::{any, assume};
use crate::kcover;
use crate::utf8::valid_utf8;
use markup5ever::buffer_queue::{BufferQueue, SetResult};
use markup5ever::SmallCharSet;
use tendril::StrTendril;

#[cfg(kani)]
pub fn stub_format(_: core::fmt::Arguments<'_>) -> String {
    String::new()
}

macro_rules! K {
    ($(#[$m:meta])* fn $name:ident() $body:block) => {
        #[cfg_attr(kani, kani::proof)]
        #[cfg_attr(kani, kani::stub(alloc::fmt::format, stub_format))]
        $(#[cfg_attr(kani, $m)])*
        pub fn $name() $body
    };
}

// The flat model: unread text as a big-endian shift register (oldest byte highest) + length.
// All model operations are bit-vector operations; buffer lengths are concrete per shape
// (the shape list is walked inside one harness by a symbolic selector), contents,
// character sets and patterns are symbolic.
#[derive(Clone, Copy, PartialEq, Eq)]
pub struct Flat {
    r: u128,
    len: usize,
}

impl Flat {
    fn new() -> Flat {
        Flat { r: 0, len: 0 }
    }
    fn push(&mut self, b: u8) {
        assert!(self.len < 16);
        self.r = (self.r << 8) | b as u128;
        self.len += 1;
    }
    fn push_all(&mut self, s: &[u8]) {
        let mut i = 0;
        while i < s.len() {
            self.push(s[i]);
            i += 1;
        }
    }
    /// i-th unread byte (0 = next to be read)
    fn at(&self, i: usize) -> u8 {
        assert!(i < self.len);
        (self.r >> (8 * (self.len - 1 - i))) as u8
    }
    fn skip(&self, n: usize) -> Flat {
        assert!(n <= self.len);
        let l = self.len - n;
        let mask = if l == 0 { 0 } else { (!0u128) >> (128 - 8 * l) };
        Flat { r: self.r & mask, len: l }
    }
    fn seq_len(&self) -> usize {
        crate::utf8::seq_len(self.at(0))
    }
    fn first_char(&self) -> u32 {
        let n = self.seq_len();
        let c = self.at(0) as u32;
        match n {
            1 => c,
            2 => ((c & 0x1F) << 6) | (self.at(1) as u32 & 0x3F),
            3 => ((c & 0x0F) << 12) | ((self.at(1) as u32 & 0x3F) << 6) | (self.at(2) as u32 & 0x3F),
            _ => {
                ((c & 0x07) << 18)
                    | ((self.at(1) as u32 & 0x3F) << 12)
                    | ((self.at(2) as u32 & 0x3F) << 6)
                    | (self.at(3) as u32 & 0x3F)
            },
        }
    }
}

fn any_str<const L: usize>() -> [u8; L] {
    let b: [u8; L] = any();
    assume(valid_utf8(&b));
    b
}

fn t_of(b: &[u8]) -> StrTendril {
    // SAFETY: assumed well-formed by any_str
    StrTendril::from_slice(unsafe { core::str::from_utf8_unchecked(b) })
}

/// Empty the queue through its own API into a Flat; also reports whether any stored buffer
/// was empty ("no empty buffer is ever stored").
fn drain(q: &BufferQueue, max_bufs: usize) -> (Flat, bool) {
    let mut f = Flat::new();
    let mut saw_empty = false;
    let mut k = 0;
    while k < max_bufs {
        match q.pop_front() {
            None => break,
            Some(t) => {
                if t.len32() == 0 {
                    saw_empty = true;
                }
                f.push_all(t.as_bytes());
                core::mem::forget(t);
            },
        }
        k += 1;
    }
    assert!(q.is_empty());
    (f, saw_empty)
}

pub struct World<const A: usize, const B: usize, const C: usize> {
    q: BufferQueue,
    a: [u8; A],
    b: [u8; B],
    c: [u8; C],
    flat: Flat,
}

/// queue built by three push_back calls with buffers of A, B, C bytes (0 = an empty buffer,
/// which must be skipped)
fn world<const A: usize, const B: usize, const C: usize>() -> World<A, B, C> {
    let q = BufferQueue::default();
    let mut flat = Flat::new();
    let (a, b, c) = (any_str::<A>(), any_str::<B>(), any_str::<C>());
    q.push_back(t_of(&a));
    flat.push_all(&a);
    q.push_back(t_of(&b));
    flat.push_all(&b);
    q.push_back(t_of(&c));
    flat.push_all(&c);
    World { q, a, b, c, flat }
}

impl<const A: usize, const B: usize, const C: usize> World<A, B, C> {
    /// length of the first non-empty buffer (0 if none)
    fn first_len(&self) -> usize {
        if A > 0 {
            A
        } else if B > 0 {
            B
        } else {
            C
        }
    }
    fn finish(self, expect: Flat) {
        let (got, saw_empty) = drain(&self.q, 4);
        assert!(!saw_empty, "an empty buffer was stored in the queue");
        assert!(got == expect, "unread content differs from the flat model");
        core::mem::forget(self.q);
    }
}

// ---- next / peek ------------------------------------------------------------------
fn next_peek<const A: usize, const B: usize, const C: usize>() {
    let w = world::<A, B, C>();
    let do_next: bool = any();
    let nonempty = w.flat.len > 0;
    match w.q.peek() {
        None => assert!(!nonempty),
        Some(c) => assert!(nonempty && c as u32 == w.flat.first_char()),
    }
    let mut e = w.flat;
    if do_next {
        match w.q.next() {
            None => assert!(!nonempty),
            Some(c) => {
                assert!(nonempty && c as u32 == w.flat.first_char());
                e = w.flat.skip(w.flat.seq_len());
            },
        }
    }
    kcover!(do_next && (nonempty || A + B + C == 0), "next() reachable");
    w.finish(e);
}

// ---- pop_except_from -----------------------------------------------------------------
fn pop_except<const A: usize, const B: usize, const C: usize>() {
    let w = world::<A, B, C>();
    let bits: u64 = any();
    let r = w.q.pop_except_from(SmallCharSet { bits });
    let fl = w.first_len();
    // model: maximal run of non-members inside the first non-empty buffer
    let mut n = 0;
    while n < fl {
        let b = w.flat.at(n);
        if b < 64 && (bits >> b) & 1 == 1 {
            break;
        }
        n += 1;
    }
    let e;
    match r {
        None => {
            assert!(fl == 0, "pop_except_from returned None on a non-empty queue");
            e = w.flat;
        },
        Some(SetResult::FromSet(c)) => {
            assert!(fl > 0 && n == 0, "a set member was returned although a non-member run is first");
            assert!(c as u32 == w.flat.at(0) as u32);
            e = w.flat.skip(1);
        },
        Some(SetResult::NotFromSet(t)) => {
            assert!(n > 0, "NotFromSet returned although the first character is a set member");
            let tb = t.as_bytes();
            assert!(tb.len() == n, "run is not the maximal non-member run of the first buffer");
            let mut i = 0;
            while i < n {
                assert!(tb[i] == w.flat.at(i));
                i += 1;
            }
            core::mem::forget(t);
            e = w.flat.skip(n);
        },
    }
    kcover!(n == fl, "run reaching the buffer join (or empty queue) reachable");
    w.finish(e);
}

// ---- eat --------------------------------------------------------------------------------
fn model_eat<const P: usize>(flat: &Flat, pat: &[u8; P], ci: bool) -> Option<bool> {
    if flat.len == 0 {
        // nothing can be known on an empty queue
        return None;
    }
    let mut j = 0;
    while j < P {
        if j >= flat.len {
            return None;
        }
        let (a, b) = (flat.at(j), pat[j]);
        let same = if ci { a.eq_ignore_ascii_case(&b) } else { a == b };
        if !same {
            return Some(false);
        }
        j += 1;
    }
    Some(true)
}

fn any_ascii<const P: usize>() -> [u8; P] {
    let pat: [u8; P] = any();
    let mut i = 0;
    while i < P {
        assume(pat[i] < 0x80);
        i += 1;
    }
    pat
}

fn eat<const A: usize, const B: usize, const C: usize, const P: usize, const CI: bool>() {
    let w = world::<A, B, C>();
    let pat = any_ascii::<P>();
    let ci = CI;
    // SAFETY: ASCII
    let ps = unsafe { core::str::from_utf8_unchecked(&pat[..]) };
    let r = if CI {
        w.q.eat(ps, u8::eq_ignore_ascii_case)
    } else {
        w.q.eat(ps, |a: &u8, b: &u8| a == b)
    };
    let verdict = model_eat(&w.flat, &pat, ci);
    assert!(r == verdict, "eat's answer differs from a prefix comparison of the concatenation");
    let e = if verdict == Some(true) { w.flat.skip(P) } else { w.flat };
    kcover!(verdict == Some(true) || A + B + C < P, "a match is reachable (where the text is long enough)");
    w.finish(e);
}

// ---- push_front after partial consumption ------------------------------------------------
fn push_front<const A: usize, const B: usize, const C: usize, const F: usize, const K: u8>() {
    let w = world::<A, B, C>();
    // K characters already consumed
    let k: u8 = K;
    let mut rest = w.flat;
    let mut i = 0;
    while i < k {
        if rest.len > 0 {
            rest = rest.skip(rest.seq_len());
        }
        let _ = w.q.next();
        i += 1;
    }
    let f = any_str::<F>();
    w.q.push_front(t_of(&f));
    let mut e = Flat::new();
    e.push_all(&f);
    let mut i = 0;
    while i < rest.len {
        e.push(rest.at(i));
        i += 1;
    }
    match w.q.peek() {
        None => assert!(e.len == 0),
        Some(c) => assert!(e.len > 0 && c as u32 == e.first_char()),
    }
    kcover!(k == K, "push_front reachable");
    w.finish(e);
}

// ---- two operations in sequence: pop_except_from, then eat ---------------------------------
fn pop_then_eat<const A: usize, const B: usize, const C: usize>() {
    let w = world::<A, B, C>();
    let bits: u64 = any();
    let consumed = match w.q.pop_except_from(SmallCharSet { bits }) {
        None => 0,
        Some(SetResult::FromSet(c)) => c.len_utf8(),
        Some(SetResult::NotFromSet(t)) => {
            let n = t.len();
            core::mem::forget(t);
            n
        },
    };
    assert!(consumed <= w.flat.len);
    let rest = w.flat.skip(consumed);
    let pat = any_ascii::<2>();
    // SAFETY: ASCII
    let ps = unsafe { core::str::from_utf8_unchecked(&pat[..]) };
    let r2 = w.q.eat(ps, u8::eq_ignore_ascii_case);
    let verdict = model_eat(&rest, &pat, true);
    assert!(r2 == verdict);
    let e = if verdict == Some(true) { rest.skip(2) } else { rest };
    kcover!(verdict == Some(true) && consumed > 0, "eat after a partial pop reachable");
    w.finish(e);
}

/// the concrete walk over buffer shapes, selected by a symbolic index inside one harness
macro_rules! shapes {
    ($f:ident; $( ($($g:literal),*) )*) => {{
        let sel: u8 = any();
        let mut k = 0u8;
        let mut hit = false;
        $(
            if sel == k { $f::<$($g),*>(); hit = true; }
            k += 1;
        )*
        let _ = k;
        assume(hit);
    }};
}


K! { #[kani::unwind(8)] fn c13_next_peek_q0() { next_peek::<2,0,1>() } }
K! { #[kani::unwind(8)] fn c13_next_peek_q1() { next_peek::<0,3,1>() } }
K! { #[kani::unwind(8)] fn c13_next_peek_q2() { next_peek::<1,1,1>() } }
K! { #[kani::unwind(8)] fn c13_next_peek_q3() { next_peek::<0,0,0>() } }
K! { #[kani::unwind(8)] fn c13_pop_except_q0() { pop_except::<3,1,0>() } }
K! { #[kani::unwind(8)] fn c13_pop_except_q1() { pop_except::<0,2,2>() } }
K! { #[kani::unwind(8)] fn c13_pop_except_q2() { pop_except::<1,3,0>() } }
K! { #[kani::unwind(8)] fn c13_pop_except_q3() { pop_except::<0,0,0>() } }
K! { #[kani::unwind(8)] fn c13_eat_eq_q0() { eat::<1,2,1,3,false>() } }
K! { #[kani::unwind(8)] fn c13_eat_eq_q1() { eat::<2,0,2,3,false>() } }
K! { #[kani::unwind(8)] fn c13_eat_eq_q2() { eat::<0,0,0,2,false>() } }
K! { #[kani::unwind(8)] fn c13_eat_ci_q0() { eat::<1,1,0,3,true>() } }
K! { #[kani::unwind(8)] fn c13_eat_ci_q1() { eat::<3,1,0,2,true>() } }
K! { #[kani::unwind(8)] fn c13_eat_ci_q2() { eat::<0,1,2,2,true>() } }
K! { #[kani::unwind(8)] fn c13_push_front_q0() { push_front::<1,2,0,2,0>() } }
K! { #[kani::unwind(8)] fn c13_push_front_q2() { push_front::<2,0,1,1,0>() } }
K! { #[kani::unwind(8)] fn c13_push_front_q3() { push_front::<0,0,0,2,0>() } }
K! { #[kani::unwind(8)] fn c13_push_front_q1() { push_front::<1,0,1,0,0>() } }
K! { #[kani::unwind(8)] fn c13_pop_then_eat_q0() { pop_then_eat::<2,1,0>() } }
K! { #[kani::unwind(8)] fn c13_pop_then_eat_q1() { pop_then_eat::<1,0,2>() } }

K! { #[kani::unwind(14)] fn c13_next_peek_t() { shapes!(next_peek; (4,0,1) (0,3,2) (1,4,1) (2,2,2) (3,3,3) (0,0,4)) } }
K! { #[kani::unwind(14)] fn c13_pop_except_t() { shapes!(pop_except; (4,1,0) (0,4,2) (1,3,4) (2,2,2) (3,0,3)) } }
K! { #[kani::unwind(14)] fn c13_eat_eq_t() { shapes!(eat; (1,1,1,4,false) (2,2,2,4,false) (1,3,0,4,false) (4,0,1,4,false)) } }
K! { #[kani::unwind(14)] fn c13_eat_ci_t() { shapes!(eat; (0,1,1,4,true) (2,1,3,4,true) (1,0,0,4,true) (1,2,1,4,true)) } }
K! { #[kani::unwind(14)] fn c13_push_front_t() { shapes!(push_front; (2,1,2,3,1) (1,3,2,1,2) (4,0,0,4,0) (1,1,1,0,1)) } }
K! { #[kani::unwind(14)] fn c13_pop_then_eat_t() { shapes!(pop_then_eat; (2,1,2) (1,0,3) (3,2,0) (4,1,1) (1,1,1) (0,2,3)) } }

pub const TABLE: &[(&str, fn())] = &[
    ("c13_next_peek_q0", c13_next_peek_q0),
    ("c13_next_peek_q1", c13_next_peek_q1),
    ("c13_next_peek_q2", c13_next_peek_q2),
    ("c13_next_peek_q3", c13_next_peek_q3),
    ("c13_pop_except_q0", c13_pop_except_q0),
    ("c13_pop_except_q1", c13_pop_except_q1),
    ("c13_pop_except_q2", c13_pop_except_q2),
    ("c13_pop_except_q3", c13_pop_except_q3),
    ("c13_eat_eq_q0", c13_eat_eq_q0),
    ("c13_eat_eq_q1", c13_eat_eq_q1),
    ("c13_eat_eq_q2", c13_eat_eq_q2),
    ("c13_eat_ci_q0", c13_eat_ci_q0),
    ("c13_eat_ci_q1", c13_eat_ci_q1),
    ("c13_eat_ci_q2", c13_eat_ci_q2),
    ("c13_push_front_q0", c13_push_front_q0),
    ("c13_push_front_q1", c13_push_front_q1),
    ("c13_push_front_q2", c13_push_front_q2),
    ("c13_push_front_q3", c13_push_front_q3),
    ("c13_pop_then_eat_q0", c13_pop_then_eat_q0),
    ("c13_pop_then_eat_q1", c13_pop_then_eat_q1),
    ("c13_next_peek_t", c13_next_peek_t),
    ("c13_pop_except_t", c13_pop_except_t),
    ("c13_eat_eq_t", c13_eat_eq_t),
    ("c13_eat_ci_t", c13_eat_ci_t),
    ("c13_push_front_t", c13_push_front_t),
    ("c13_pop_then_eat_t", c13_pop_then_eat_t),
];
