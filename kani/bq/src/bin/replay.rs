fn main() {
    #[cfg(not(kani))]
    verif_kani_bq::k::replay_main(verif_kani_bq::proofs::TABLE)
}
