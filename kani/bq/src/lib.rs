//! Engine K harnesses for C13: the real `markup5ever::buffer_queue::BufferQueue`
//! against "one flat character stream".
#![allow(dead_code)]
#[path = "../../common/k.rs"]
pub mod k;
#[path = "../../common/utf8.rs"]
pub mod utf8;
pub mod proofs;
