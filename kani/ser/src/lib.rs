//! Engine K harnesses for C07: the real `html5ever::serialize::HtmlSerializer`
//! driven through the public `Serializer` API with symbolic text / attribute
//! values / element names, compared against a transcription of the WHATWG
//! "escaping a string" algorithm and against the inner==outer law.
//!
//! Instantiation: `HtmlSerializer<ArrW>` where `ArrW` is a fixed-capacity
//! `io::Write` that never fails (the serializer's logic is independent of Wr).
#![allow(dead_code)]

use std::io::{self, Write};

pub const CAP: usize = 64;

/// The writer keeps the output as a 512-bit big-endian shift register plus a
/// length: an injective encoding of byte strings of <= 64 bytes that needs no
/// array with a symbolic index (which is what makes CBMC slow).
pub struct ArrW {
    pub w: [u128; 4],
    pub n: usize,
}

impl ArrW {
    pub fn new() -> ArrW {
        ArrW { w: [0; 4], n: 0 }
    }
    #[inline]
    pub fn push(&mut self, b: u8) {
        // capacity overflow is a harness sizing error, never silently dropped
        assert!(self.n < CAP);
        self.w[3] = (self.w[3] << 8) | (self.w[2] >> 120);
        self.w[2] = (self.w[2] << 8) | (self.w[1] >> 120);
        self.w[1] = (self.w[1] << 8) | (self.w[0] >> 120);
        self.w[0] = (self.w[0] << 8) | (b as u128);
        self.n += 1;
    }
    /// the bytes written, oldest first (native replay / debugging only)
    pub fn bytes(&self) -> Vec<u8> {
        let mut v = Vec::new();
        for i in (0..self.n).rev() {
            v.push((self.w[i / 16] >> (8 * (i % 16))) as u8);
        }
        v
    }
}

impl Write for ArrW {
    fn write(&mut self, b: &[u8]) -> io::Result<usize> {
        self.write_all(b)?;
        Ok(b.len())
    }
    fn write_all(&mut self, b: &[u8]) -> io::Result<()> {
        // straight-line (no loop): the unwinding bound of a harness is then tied to the
        // length of the symbolic text only, not to the longest literal the serializer writes
        let n = b.len();
        assert!(n <= 20, "harness sizing: write_all of more than 20 bytes");
        macro_rules! step { ($($i:literal)*) => { $( if n > $i { self.push(b[$i]); } )* } }
        step!(0 1 2 3 4 5 6 7 8 9 10 11 12 13 14 15 16 17 18 19);
        Ok(())
    }
    fn flush(&mut self) -> io::Result<()> {
        Ok(())
    }
}

/// WHATWG HTML "escaping a string" (13.3), over UTF-8 bytes:
/// & -> &amp;  U+00A0 -> &nbsp;  < -> &lt;  > -> &gt;  and in attribute mode " -> &quot;
pub fn escape_ref(s: &[u8], attr: bool, out: &mut ArrW) {
    let mut i = 0;
    while i < s.len() {
        let b = s[i];
        if b == b'&' {
            let _ = out.write_all(b"&amp;");
        } else if b == 0xC2 && i + 1 < s.len() && s[i + 1] == 0xA0 {
            let _ = out.write_all(b"&nbsp;");
            i += 1;
        } else if b == b'<' {
            let _ = out.write_all(b"&lt;");
        } else if b == b'>' {
            let _ = out.write_all(b"&gt;");
        } else if attr && b == b'"' {
            let _ = out.write_all(b"&quot;");
        } else {
            let _ = out.write_all(&[b]);
        }
        i += 1;
    }
}

pub fn same(a: &ArrW, b: &ArrW) -> bool {
    a.n == b.n && a.w[0] == b.w[0] && a.w[1] == b.w[1] && a.w[2] == b.w[2] && a.w[3] == b.w[3]
}

pub use memchr::memchr2 as real_memchr2;
pub use memchr::memchr3 as real_memchr3;

#[path = "../../common/k.rs"]
pub mod k;
pub mod proofs;
