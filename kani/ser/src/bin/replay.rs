fn main() {
    #[cfg(not(kani))]
    verif_kani_ser::k::replay_main(verif_kani_ser::proofs::TABLE)
}
