use super::*;
use crate::k::{any, assume};
use crate::kcover;
use html5ever::serialize::{HtmlSerializer, SerializeOpts, Serializer, TraversalScope};
use html5ever::{local_name, ns, LocalName, Namespace, QualName};

// ---- stubs (each one is part of the claim, listed in the evidence) -----------
pub fn stub_format(_: core::fmt::Arguments<'_>) -> String {
    String::new()
}
pub fn stub_lock_slow(_: &parking_lot::RawMutex, _: Option<std::time::Instant>) -> bool {
    true
}
pub fn stub_unlock_slow(_: &parking_lot::RawMutex, _: bool) {}

/// memchr's documented contract: index of the first byte equal to one of the needles.
pub fn stub_memchr2(a: u8, b: u8, h: &[u8]) -> Option<usize> {
    let mut i = 0;
    while i < h.len() {
        if h[i] == a || h[i] == b {
            return Some(i);
        }
        i += 1;
    }
    None
}
pub fn stub_memchr3(a: u8, b: u8, c: u8, h: &[u8]) -> Option<usize> {
    let mut i = 0;
    while i < h.len() {
        if h[i] == a || h[i] == b || h[i] == c {
            return Some(i);
        }
        i += 1;
    }
    None
}

/// Well-formed UTF-8 per Unicode table 3-7 (same predicate as core::str::from_utf8).
fn valid_utf8(b: &[u8]) -> bool {
    let mut i = 0;
    while i < b.len() {
        let c = b[i];
        if c < 0x80 {
            i += 1;
        } else if c >= 0xC2 && c <= 0xDF {
            if i + 1 >= b.len() || b[i + 1] & 0xC0 != 0x80 {
                return false;
            }
            i += 2;
        } else if c >= 0xE0 && c <= 0xEF {
            if i + 2 >= b.len() {
                return false;
            }
            let (lo, hi) = match c {
                0xE0 => (0xA0, 0xBF),
                0xED => (0x80, 0x9F),
                _ => (0x80, 0xBF),
            };
            if b[i + 1] < lo || b[i + 1] > hi || b[i + 2] & 0xC0 != 0x80 {
                return false;
            }
            i += 3;
        } else if c >= 0xF0 && c <= 0xF4 {
            if i + 3 >= b.len() {
                return false;
            }
            let (lo, hi) = match c {
                0xF0 => (0x90, 0xBF),
                0xF4 => (0x80, 0x8F),
                _ => (0x80, 0xBF),
            };
            if b[i + 1] < lo
                || b[i + 1] > hi
                || b[i + 2] & 0xC0 != 0x80
                || b[i + 3] & 0xC0 != 0x80
            {
                return false;
            }
            i += 4;
        } else {
            return false;
        }
    }
    true
}

fn any_str<const N: usize>(bytes: &[u8; N]) -> &str {
    let len: usize = any();
    assume(len <= N);
    assume(valid_utf8(&bytes[..len]));
    // SAFETY: assumed well-formed just above (predicate = table 3-7).
    unsafe { std::str::from_utf8_unchecked(&bytes[..len]) }
}

fn opts(scope: TraversalScope, scripting: bool) -> SerializeOpts {
    SerializeOpts {
        scripting_enabled: scripting,
        traversal_scope: scope,
        create_missing_parent: false,
    }
}

macro_rules! K {
    ($(#[$m:meta])* fn $name:ident() $body:block) => {
        #[cfg_attr(kani, kani::proof)]
        #[cfg_attr(kani, kani::stub(alloc::fmt::format, stub_format))]
        #[cfg_attr(kani, kani::stub(parking_lot::RawMutex::lock_slow, stub_lock_slow))]
        #[cfg_attr(kani, kani::stub(parking_lot::RawMutex::unlock_slow, stub_unlock_slow))]
        #[cfg_attr(kani, kani::stub(crate::real_memchr2, stub_memchr2))]
        #[cfg_attr(kani, kani::stub(crate::real_memchr3, stub_memchr3))]
        $(#[cfg_attr(kani, $m)])*
        pub fn $name() $body
    };
}

fn text_escape<const N: usize>() {
    let bytes: [u8; N] = any();
    let s = any_str(&bytes);
    let mut ser = HtmlSerializer::new(ArrW::new(), opts(TraversalScope::ChildrenOnly(None), true));
    ser.write_text(s).unwrap();
    let mut r = ArrW::new();
    escape_ref(s.as_bytes(), false, &mut r);
    assert!(same(&ser.writer, &r));
    kcover!(s.len() == N, "full-length text reachable");
    core::mem::forget(ser);
}

fn attr_escape<const N: usize>() {
    let bytes: [u8; N] = any();
    let s = any_str(&bytes);
    let mut ser = HtmlSerializer::new(ArrW::new(), opts(TraversalScope::ChildrenOnly(None), true));
    let an = QualName::new(None, ns!(), local_name!("title"));
    let attrs = [(&an, s)];
    ser.start_elem(
        QualName::new(None, ns!(html), local_name!("a")),
        attrs.iter().map(|&(n, v)| (n, v)),
    )
    .unwrap();
    let mut r = ArrW::new();
    let _ = r.write_all(b"<a");
    let _ = r.write_all(b" title");
    let _ = r.write_all(b"=\"");
    escape_ref(s.as_bytes(), true, &mut r);
    let _ = r.write_all(b"\">");
    assert!(same(&ser.writer, &r));
    kcover!(s.len() == N, "full-length value reachable");
    core::mem::forget(ser);
    core::mem::forget(an);
}

K! { #[kani::unwind(6)] fn c07a_text_escape_4() { text_escape::<4>() } }
K! { #[kani::unwind(8)] fn c07a_text_escape_6() { text_escape::<6>() } }
K! { #[kani::unwind(6)] fn c07a_attr_escape_4() { attr_escape::<4>() } }
K! { #[kani::unwind(8)] fn c07a_attr_escape_6() { attr_escape::<6>() } }

// ---- (c) inner == outer ------------------------------------------------------
// Vocabulary: every HTML raw-text name, noscript, a void element, ordinary names.
fn pick_local(i: u8) -> LocalName {
    match i {
        0 => local_name!("style"),
        1 => local_name!("script"),
        2 => local_name!("xmp"),
        3 => local_name!("iframe"),
        4 => local_name!("noembed"),
        5 => local_name!("noframes"),
        6 => local_name!("plaintext"),
        7 => local_name!("noscript"),
        8 => local_name!("br"),
        9 => local_name!("div"),
        10 => local_name!("title"),
        _ => local_name!("p"),
    }
}
fn pick_ns(i: u8) -> Namespace {
    match i {
        0 => ns!(html),
        1 => ns!(svg),
        2 => ns!(mathml),
        _ => ns!(xml),
    }
}

fn is_raw_text(ns: &Namespace, l: &LocalName, scripting: bool) -> bool {
    *ns == ns!(html)
        && (*l == local_name!("style")
            || *l == local_name!("script")
            || *l == local_name!("xmp")
            || *l == local_name!("iframe")
            || *l == local_name!("noembed")
            || *l == local_name!("noframes")
            || *l == local_name!("plaintext")
            || (*l == local_name!("noscript") && scripting))
}

fn is_void(ns: &Namespace, l: &LocalName) -> bool {
    *ns == ns!(html) && *l == local_name!("br")
}

/// serialise the children (one text node, one <b> element with text) into `ser`
fn children<const N: usize>(ser: &mut HtmlSerializer<ArrW>, s: &str) {
    ser.write_text(s).unwrap();
    ser.start_elem(
        QualName::new(None, ns!(html), local_name!("b")),
        core::iter::empty(),
    )
    .unwrap();
    ser.write_text(s).unwrap();
    ser.end_elem(QualName::new(None, ns!(html), local_name!("b")))
        .unwrap();
}

fn inner_outer<const N: usize>(li: u8) {
    // the local name is concrete per harness (printing a symbolic static atom means a
    // symbolic index into string_cache's static table); namespace, scripting flag and
    // text stay symbolic
    let ni: u8 = any();
    assume(ni < 4);
    let scripting: bool = any();
    let bytes: [u8; N] = any();
    let s = any_str(&bytes);

    let name = QualName::new(None, pick_ns(ni), pick_local(li));

    // outer: serialisation of the element itself
    let mut outer =
        HtmlSerializer::new(ArrW::new(), opts(TraversalScope::IncludeNode, scripting));
    outer.start_elem(name.clone(), core::iter::empty()).unwrap();
    children::<N>(&mut outer, s);
    outer.end_elem(name.clone()).unwrap();

    // inner: the same children with the element named as the parent, written into a
    // buffer that already holds "<name>", followed by "</name>"
    let mut pre = ArrW::new();
    let _ = pre.write_all(b"<");
    let _ = pre.write_all(name.local.as_bytes());
    let _ = pre.write_all(b">");
    let mut inner = HtmlSerializer::new(
        pre,
        opts(TraversalScope::ChildrenOnly(Some(name.clone())), scripting),
    );
    children::<N>(&mut inner, s);
    let _ = inner.writer.write_all(b"</");
    let _ = inner.writer.write_all(name.local.as_bytes());
    let _ = inner.writer.write_all(b">");

    // reference: "<name>" + X(s) + "<b>" + escape(s) + "</b>" + "</name>" where X leaves the
    // text raw iff the element is an HTML raw-text element
    let mut r = ArrW::new();
    let _ = r.write_all(b"<");
    let _ = r.write_all(name.local.as_bytes());
    let _ = r.write_all(b">");
    if is_raw_text(&name.ns, &name.local, scripting) {
        let _ = r.write_all(s.as_bytes());
    } else {
        escape_ref(s.as_bytes(), false, &mut r);
    }
    let _ = r.write_all(b"<b>");
    escape_ref(s.as_bytes(), false, &mut r);
    let _ = r.write_all(b"</b>");
    let _ = r.write_all(b"</");
    let _ = r.write_all(name.local.as_bytes());
    let _ = r.write_all(b">");

    if !is_void(&name.ns, &name.local) {
        // (the law is stated for non-void elements: a void element has no end tag, and
        // the serializer API gives its children no defined place)
        assert!(same(&outer.writer, &inner.writer));
        assert!(same(&inner.writer, &r));
    }
    kcover!(s.len() == N && ni == 1, "full-length text under an svg-namespace parent reachable");
    core::mem::forget(outer);
    core::mem::forget(inner);
    core::mem::forget(name);
}

K! { #[kani::unwind(4)] fn c07c_io2_style() { inner_outer::<2>(0) } }
K! { #[kani::unwind(4)] fn c07c_io2_script() { inner_outer::<2>(1) } }
K! { #[kani::unwind(4)] fn c07c_io2_xmp() { inner_outer::<2>(2) } }
K! { #[kani::unwind(4)] fn c07c_io2_iframe() { inner_outer::<2>(3) } }
K! { #[kani::unwind(4)] fn c07c_io2_noembed() { inner_outer::<2>(4) } }
K! { #[kani::unwind(4)] fn c07c_io2_noframes() { inner_outer::<2>(5) } }
K! { #[kani::unwind(4)] fn c07c_io2_plaintext() { inner_outer::<2>(6) } }
K! { #[kani::unwind(4)] fn c07c_io2_noscript() { inner_outer::<2>(7) } }
K! { #[kani::unwind(4)] fn c07c_io2_br() { inner_outer::<2>(8) } }
K! { #[kani::unwind(4)] fn c07c_io2_div() { inner_outer::<2>(9) } }
K! { #[kani::unwind(4)] fn c07c_io2_title() { inner_outer::<2>(10) } }
K! { #[kani::unwind(4)] fn c07c_io2_p() { inner_outer::<2>(11) } }
K! { #[kani::unwind(5)] fn c07c_io3_style() { inner_outer::<3>(0) } }
K! { #[kani::unwind(5)] fn c07c_io3_script() { inner_outer::<3>(1) } }
K! { #[kani::unwind(5)] fn c07c_io3_xmp() { inner_outer::<3>(2) } }
K! { #[kani::unwind(5)] fn c07c_io3_iframe() { inner_outer::<3>(3) } }
K! { #[kani::unwind(5)] fn c07c_io3_noembed() { inner_outer::<3>(4) } }
K! { #[kani::unwind(5)] fn c07c_io3_noframes() { inner_outer::<3>(5) } }
K! { #[kani::unwind(5)] fn c07c_io3_plaintext() { inner_outer::<3>(6) } }
K! { #[kani::unwind(5)] fn c07c_io3_noscript() { inner_outer::<3>(7) } }
K! { #[kani::unwind(5)] fn c07c_io3_br() { inner_outer::<3>(8) } }
K! { #[kani::unwind(5)] fn c07c_io3_div() { inner_outer::<3>(9) } }
K! { #[kani::unwind(5)] fn c07c_io3_title() { inner_outer::<3>(10) } }
K! { #[kani::unwind(5)] fn c07c_io3_p() { inner_outer::<3>(11) } }

pub const TABLE: &[(&str, fn())] = &[
    ("c07a_text_escape_4", c07a_text_escape_4),
    ("c07a_text_escape_6", c07a_text_escape_6),
    ("c07a_attr_escape_4", c07a_attr_escape_4),
    ("c07a_attr_escape_6", c07a_attr_escape_6),
    ("c07c_io2_style", c07c_io2_style),
    ("c07c_io2_script", c07c_io2_script),
    ("c07c_io2_xmp", c07c_io2_xmp),
    ("c07c_io2_iframe", c07c_io2_iframe),
    ("c07c_io2_noembed", c07c_io2_noembed),
    ("c07c_io2_noframes", c07c_io2_noframes),
    ("c07c_io2_plaintext", c07c_io2_plaintext),
    ("c07c_io2_noscript", c07c_io2_noscript),
    ("c07c_io2_br", c07c_io2_br),
    ("c07c_io2_div", c07c_io2_div),
    ("c07c_io2_title", c07c_io2_title),
    ("c07c_io2_p", c07c_io2_p),
    ("c07c_io3_style", c07c_io3_style),
    ("c07c_io3_script", c07c_io3_script),
    ("c07c_io3_xmp", c07c_io3_xmp),
    ("c07c_io3_iframe", c07c_io3_iframe),
    ("c07c_io3_noembed", c07c_io3_noembed),
    ("c07c_io3_noframes", c07c_io3_noframes),
    ("c07c_io3_plaintext", c07c_io3_plaintext),
    ("c07c_io3_noscript", c07c_io3_noscript),
    ("c07c_io3_br", c07c_io3_br),
    ("c07c_io3_div", c07c_io3_div),
    ("c07c_io3_title", c07c_io3_title),
    ("c07c_io3_p", c07c_io3_p),
];
