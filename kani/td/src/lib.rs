//! Engine K harnesses over the real `tendril` crate: C11 (tendrils behave as independent owned strings) and
//! C12 (buffers freed exactly once, no out-of-bounds access; sequential only).  The UTF-8 stream decoder (C10) is
//! checked by engine M instead (CBMC did not finish on it).
#![allow(dead_code)]
#[path = "../../common/k.rs"]
pub mod k;
#[path = "../../common/utf8.rs"]
pub mod utf8;
pub mod ops;

#[cfg(kani)]
pub fn stub_format(_: core::fmt::Arguments<'_>) -> String {
    String::new()
}

#[macro_export]
macro_rules! K {
    ($(#[$m:meta])* fn $name:ident() $body:block) => {
        #[cfg_attr(kani, kani::proof)]
        #[cfg_attr(kani, kani::stub(alloc::fmt::format, crate::stub_format))]
        $(#[cfg_attr(kani, $m)])*
        pub fn $name() $body
    };
}

/// byte string of <= 32 bytes as a shift register + length (no symbolic array indexing)
#[derive(Clone, Copy, PartialEq, Eq)]
pub struct Reg {
    pub hi: u128,
    pub lo: u128,
    pub n: usize,
}
impl Reg {
    pub fn new() -> Reg {
        Reg { hi: 0, lo: 0, n: 0 }
    }
    pub fn push(&mut self, b: u8) {
        assert!(self.n < 32, "harness sizing");
        self.hi = (self.hi << 8) | (self.lo >> 120);
        self.lo = (self.lo << 8) | b as u128;
        self.n += 1;
    }
    pub fn of(s: &[u8]) -> Reg {
        let mut r = Reg::new();
        let mut i = 0;
        while i < s.len() {
            r.push(s[i]);
            i += 1;
        }
        r
    }
}

pub const TABLE: &[(&str, fn())] = ops::TABLE;
