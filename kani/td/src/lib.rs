//! Engine K harnesses over the real `tendril` crate: C10 (Utf8LossyDecoder), C11 (value
//! semantics), C12 (memory safety, sequential).
#![allow(dead_code)]
#[path = "../../common/k.rs"]
pub mod k;
#[path = "../../common/utf8.rs"]
pub mod utf8;
pub mod decoder;

#[cfg(kani)]
pub fn stub_format(_: core::fmt::Arguments<'_>) -> String {
    String::new()
}

#[macro_export]
macro_rules! K {
    ($(#[$m:meta])* fn $name:ident() $body:block) => {
        #[cfg_attr(kani, kani::proof)]
        #[cfg_attr(kani, kani::stub(alloc::fmt::format, crate::stub_format))]
        $(#[cfg_attr(kani, $m)])*
        pub fn $name() $body
    };
}

/// the concrete walk over length shapes, selected by a symbolic index inside one harness
#[macro_export]
macro_rules! shapes {
    ($f:ident; $( ($($g:literal),*) )*) => {{
        let sel: u8 = $crate::k::any();
        let mut k = 0u8;
        let mut hit = false;
        $(
            if sel == k { $f::<$($g),*>(); hit = true; }
            k += 1;
        )*
        let _ = k;
        $crate::k::assume(hit);
    }};
}

/// byte string of <= 32 bytes as a shift register + length (no symbolic array indexing)
#[derive(Clone, Copy, PartialEq, Eq)]
pub struct Reg {
    pub hi: u128,
    pub lo: u128,
    pub n: usize,
}
impl Reg {
    pub fn new() -> Reg {
        Reg { hi: 0, lo: 0, n: 0 }
    }
    pub fn push(&mut self, b: u8) {
        assert!(self.n < 32, "harness sizing");
        self.hi = (self.hi << 8) | (self.lo >> 120);
        self.lo = (self.lo << 8) | b as u128;
        self.n += 1;
    }
    pub fn push_all(&mut self, s: &[u8]) {
        let mut i = 0;
        while i < s.len() {
            self.push(s[i]);
            i += 1;
        }
    }
}

pub const TABLE: &[(&str, fn())] = &[
    ("c10_dec4_a", decoder::c10_dec4_a),
    ("c10_dec4_b", decoder::c10_dec4_b),
    ("c10_dec4_c", decoder::c10_dec4_c),
    ("c10_dec5_a", decoder::c10_dec5_a),
    ("c10_dec5_b", decoder::c10_dec5_b),
    ("c10_dec5_c", decoder::c10_dec5_c),
    ("c10_dec5_d", decoder::c10_dec5_d),
    ("c10_dec6_a", decoder::c10_dec6_a),
    ("c10_dec6_b", decoder::c10_dec6_b),
    ("c10_dec6_c", decoder::c10_dec6_c),
    ("c10_dec6_d", decoder::c10_dec6_d),
    ("c10_ref_is_std_4", decoder::c10_ref_is_std_4),
    ("c10_probe_1shape", decoder::c10_probe_1shape),
];
