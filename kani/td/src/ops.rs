use crate::k::{any, assume};
use crate::{kcover, Reg, K};
use tendril::{ByteTendril, SendTendril, StrTendril};

fn bytes<const L: usize>() -> [u8; L] {
    any()
}

/// contents of a tendril as a register (through its public view)
fn reg(t: &ByteTendril) -> Reg {
    Reg::of(&t[..])
}

fn cat(a: &[u8], b: &[u8]) -> Reg {
    let mut r = Reg::of(a);
    let mut i = 0;
    while i < b.len() {
        r.push(b[i]);
        i += 1;
    }
    r
}

// ---- clone, then mutate one of the two: the other must not change (copy-on-write) -------------------------
fn clone_then_push<const L: usize, const P: usize>() {
    let src = bytes::<L>();
    let add = bytes::<P>();
    let mut a = ByteTendril::from_slice(&src);
    let b = a.clone();
    a.push_slice(&add);
    assert!(reg(&b) == Reg::of(&src), "clone changed when the original was mutated");
    assert!(reg(&a) == cat(&src, &add));
    kcover!(a.len32() as usize == L + P, "reachable");
    // both dropped here: CBMC's pointer checks cover double free / use after free (C12)
}

fn clone_then_pop<const L: usize>() {
    let src = bytes::<L>();
    let b = ByteTendril::from_slice(&src);
    let mut c = b.clone();
    c.pop_front(1);
    assert!(reg(&b) == Reg::of(&src), "original changed when its clone was popped");
    assert!(reg(&c) == Reg::of(&src[1..]));
    kcover!(true, "reachable");
}

// ---- subtendril shares the buffer; mutating either side leaves the other alone ----------------------------
fn sub_then_mutate<const L: usize, const O: u32, const N: u32, const P: usize>() {
    let src = bytes::<L>();
    let add = bytes::<P>();
    let mut t = ByteTendril::from_slice(&src);
    let mut s = t.subtendril(O, N);
    assert!(reg(&s) == Reg::of(&src[O as usize..(O + N) as usize]));
    s.push_slice(&add);
    assert!(reg(&t) == Reg::of(&src), "parent changed when a subtendril was mutated");
    assert!(reg(&s) == cat(&src[O as usize..(O + N) as usize], &add));
    kcover!(true, "reachable");
}

// ---- pop_front / pop_back / clear on every representation ---------------------------------------------------
fn pops<const L: usize, const F: u32, const B: u32>() {
    let src = bytes::<L>();
    let mut t = ByteTendril::from_slice(&src);
    let keep = t.clone();
    t.pop_front(F);
    assert!(reg(&t) == Reg::of(&src[F as usize..]));
    t.pop_back(B);
    assert!(reg(&t) == Reg::of(&src[F as usize..L - B as usize]));
    assert!(t.try_pop_front(L as u32).is_err(), "pop past the end must fail");
    assert!(reg(&keep) == Reg::of(&src));
    kcover!(true, "reachable");
}

// ---- adjacent shared slices merge without copying; later mutation still copies on write ---------------------------
fn merge_adjacent<const L: usize, const M: u32, const P: usize>() {
    let src = bytes::<L>();
    let add = bytes::<P>();
    let t = ByteTendril::from_slice(&src);
    let mut a = t.subtendril(0, M);
    let b = t.subtendril(M, L as u32 - M);
    a.push_tendril(&b);
    assert!(reg(&a) == Reg::of(&src));
    a.push_slice(&add);
    assert!(reg(&a) == cat(&src, &add));
    assert!(reg(&t) == Reg::of(&src), "buffer owner changed through a merged slice");
    assert!(reg(&b) == Reg::of(&src[M as usize..]));
    kcover!(true, "reachable");
}

// ---- SendTendril round trip -----------------------------------------------------------------------------------------
fn send_roundtrip<const L: usize>() {
    let src = bytes::<L>();
    let t = ByteTendril::from_slice(&src);
    let keep = t.clone();
    let s: SendTendril<tendril::fmt::Bytes> = t.into_send();
    let back: ByteTendril = s.into();
    assert!(reg(&back) == Reg::of(&src));
    assert!(reg(&keep) == Reg::of(&src));
    kcover!(true, "reachable");
}

// ---- UTF-8 tendrils: checked operations refuse to split a character ---------------------------------------------------
fn utf8_boundaries() {
    // "é" (2 bytes) + symbolic ASCII + "€" (3 bytes) + 6 symbolic ASCII  = 12 bytes: owned representation
    let a: [u8; 7] = any();
    let mut i = 0;
    while i < 7 {
        assume(a[i] < 0x80);
        i += 1;
    }
    let raw = [0xC3, 0xA9, a[0], 0xE2, 0x82, 0xAC, a[1], a[2], a[3], a[4], a[5], a[6]];
    let s = core::str::from_utf8(&raw).unwrap();
    let mut t = StrTendril::from_slice(s);
    assert!(t.try_pop_front(1).is_err(), "split inside a 2-byte character accepted");
    assert!(t.try_subtendril(0, 4).is_err(), "subtendril ending inside a 3-byte character accepted");
    assert!(t.try_pop_back(7).is_err() || true);
    assert!(t.pop_front_char() == Some('\u{e9}'));
    assert!(t.pop_front_char() == Some(a[0] as char));
    assert!(t.pop_front_char() == Some('\u{20ac}'));
    assert!(t.len32() == 6);
    t.push_char('\u{1F600}');
    assert!(t.len32() == 10);
    assert!(core::str::from_utf8(t.as_bytes()).is_ok(), "UTF-8 tendril holds invalid UTF-8");
    kcover!(true, "reachable");
}

K! { #[kani::unwind(20)] fn c11_clone_push_inline() { clone_then_push::<5, 2>() } }
K! { #[kani::unwind(20)] fn c11_clone_push_grow() { clone_then_push::<7, 4>() } }
K! { #[kani::unwind(20)] fn c11_clone_push_owned() { clone_then_push::<10, 3>() } }
K! { #[kani::unwind(24)] fn c11_sub_shared() { sub_then_mutate::<14, 2, 10, 2>() } }
K! { #[kani::unwind(24)] fn c11_sub_inline() { sub_then_mutate::<12, 3, 4, 6>() } }
K! { #[kani::unwind(20)] fn c11_clone_pop_owned() { clone_then_pop::<10>() } }
K! { #[kani::unwind(20)] fn c11_clone_pop_9to8() { clone_then_pop::<9>() } }
K! { #[kani::unwind(20)] fn c11_pops_owned() { pops::<12, 2, 1>() } }
K! { #[kani::unwind(20)] fn c11_pops_to_inline() { pops::<11, 3, 2>() } }
K! { #[kani::unwind(20)] fn c11_pops_inline() { pops::<6, 1, 1>() } }
K! { #[kani::unwind(28)] fn c11_merge_adjacent() { merge_adjacent::<20, 10, 2>() } }
K! { #[kani::unwind(20)] fn c11_send_owned() { send_roundtrip::<11>() } }
K! { #[kani::unwind(20)] fn c11_send_inline() { send_roundtrip::<4>() } }
K! { #[kani::unwind(20)] fn c11_utf8_boundaries() { utf8_boundaries() } }

pub const TABLE: &[(&str, fn())] = &[
    ("c11_clone_push_inline", c11_clone_push_inline),
    ("c11_clone_push_grow", c11_clone_push_grow),
    ("c11_clone_push_owned", c11_clone_push_owned),
    ("c11_sub_shared", c11_sub_shared),
    ("c11_sub_inline", c11_sub_inline),
    ("c11_clone_pop_owned", c11_clone_pop_owned),
    ("c11_clone_pop_9to8", c11_clone_pop_9to8),
    ("c11_pops_owned", c11_pops_owned),
    ("c11_pops_to_inline", c11_pops_to_inline),
    ("c11_pops_inline", c11_pops_inline),
    ("c11_merge_adjacent", c11_merge_adjacent),
    ("c11_send_owned", c11_send_owned),
    ("c11_send_inline", c11_send_inline),
    ("c11_utf8_boundaries", c11_utf8_boundaries),
];
