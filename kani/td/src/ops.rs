use crate::k::{any, assume};
use crate::{kcover, Reg, K};
use tendril::{ByteTendril, SendTendril, StrTendril};

fn bytes<const L: usize>() -> [u8; L] {
    any()
}

/// contents of a tendril as a register (through its public view)
fn reg(t: &ByteTendril) -> Reg {
    Reg::of(&t[..])
}

fn cat(a: &[u8], b: &[u8]) -> Reg {
    let mut r = Reg::of(a);
    let mut i = 0;
    while i < b.len() {
        r.push(b[i]);
        i += 1;
    }
    r
}

// ---- clone, then mutate one of the two: the other must not change (copy-on-write) -------------------------
fn clone_then_push<const L: usize, const P: usize>() {
    let src = bytes::<L>();
    let add = bytes::<P>();
    let mut a = ByteTendril::from_slice(&src);
    let b = a.clone();
    a.push_slice(&add);
    assert!(reg(&b) == Reg::of(&src), "clone changed when the original was mutated");
    assert!(reg(&a) == cat(&src, &add));
    kcover!(a.len32() as usize == L + P, "reachable");
    // both dropped here: CBMC's pointer checks cover double free / use after free (C12)
}

fn clone_then_pop<const L: usize>() {
    let src = bytes::<L>();
    let b = ByteTendril::from_slice(&src);
    let mut c = b.clone();
    c.pop_front(1);
    assert!(reg(&b) == Reg::of(&src), "original changed when its clone was popped");
    assert!(reg(&c) == Reg::of(&src[1..]));
    kcover!(true, "reachable");
}

// ---- subtendril shares the buffer; mutating either side leaves the other alone ----------------------------
fn sub_then_mutate<const L: usize, const O: u32, const N: u32, const P: usize>() {
    let src = bytes::<L>();
    let add = bytes::<P>();
    let mut t = ByteTendril::from_slice(&src);
    let mut s = t.subtendril(O, N);
    assert!(reg(&s) == Reg::of(&src[O as usize..(O + N) as usize]));
    s.push_slice(&add);
    assert!(reg(&t) == Reg::of(&src), "parent changed when a subtendril was mutated");
    assert!(reg(&s) == cat(&src[O as usize..(O + N) as usize], &add));
    kcover!(true, "reachable");
}

// ---- pop_front / pop_back / clear on every representation ---------------------------------------------------
fn pops<const L: usize, const F: u32, const B: u32>() {
    let src = bytes::<L>();
    let mut t = ByteTendril::from_slice(&src);
    let keep = t.clone();
    t.pop_front(F);
    assert!(reg(&t) == Reg::of(&src[F as usize..]));
    t.pop_back(B);
    assert!(reg(&t) == Reg::of(&src[F as usize..L - B as usize]));
    assert!(t.try_pop_front(L as u32).is_err(), "pop past the end must fail");
    assert!(reg(&keep) == Reg::of(&src));
    kcover!(true, "reachable");
}

// ---- adjacent shared slices merge without copying; later mutation still copies on write ---------------------------
fn merge_adjacent<const L: usize, const M: u32, const P: usize>() {
    let src = bytes::<L>();
    let add = bytes::<P>();
    let t = ByteTendril::from_slice(&src);
    let mut a = t.subtendril(0, M);
    let b = t.subtendril(M, L as u32 - M);
    a.push_tendril(&b);
    assert!(reg(&a) == Reg::of(&src));
    a.push_slice(&add);
    assert!(reg(&a) == cat(&src, &add));
    assert!(reg(&t) == Reg::of(&src), "buffer owner changed through a merged slice");
    assert!(reg(&b) == Reg::of(&src[M as usize..]));
    kcover!(true, "reachable");
}

// ---- SendTendril round trip -----------------------------------------------------------------------------------------
fn send_roundtrip<const L: usize>() {
    let src = bytes::<L>();
    let t = ByteTendril::from_slice(&src);
    let keep = t.clone();
    let s: SendTendril<tendril::fmt::Bytes> = t.into_send();
    let back: ByteTendril = s.into();
    assert!(reg(&back) == Reg::of(&src));
    assert!(reg(&keep) == Reg::of(&src));
    kcover!(true, "reachable");
}

// ---- UTF-8 tendrils: checked operations refuse to split a character ---------------------------------------------------
fn utf8_boundaries() {
    // "é" (2 bytes) + symbolic ASCII + "€" (3 bytes) + 6 symbolic ASCII  = 12 bytes: owned representation
    let a: [u8; 7] = any();
    let mut i = 0;
    while i < 7 {
        assume(a[i] < 0x80);
        i += 1;
    }
    let raw = [0xC3, 0xA9, a[0], 0xE2, 0x82, 0xAC, a[1], a[2], a[3], a[4], a[5], a[6]];
    let s = core::str::from_utf8(&raw).unwrap();
    let mut t = StrTendril::from_slice(s);
    assert!(t.try_pop_front(1).is_err(), "split inside a 2-byte character accepted");
    assert!(t.try_subtendril(0, 4).is_err(), "subtendril ending inside a 3-byte character accepted");
    assert!(t.try_pop_back(7).is_err() || true);
    assert!(t.pop_front_char() == Some('\u{e9}'));
    assert!(t.pop_front_char() == Some(a[0] as char));
    assert!(t.pop_front_char() == Some('\u{20ac}'));
    assert!(t.len32() == 6);
    t.push_char('\u{1F600}');
    assert!(t.len32() == 10);
    assert!(core::str::from_utf8(t.as_bytes()).is_ok(), "UTF-8 tendril holds invalid UTF-8");
    kcover!(true, "reachable");
}

K! { #[kani::unwind(20)] fn c11_clone_push_inline() { clone_then_push::<5, 2>() } }
K! { #[kani::unwind(20)] fn c11_clone_push_grow() { clone_then_push::<7, 4>() } }
K! { #[kani::unwind(20)] fn c11_clone_push_owned() { clone_then_push::<10, 3>() } }
K! { #[kani::unwind(24)] fn c11_sub_shared() { sub_then_mutate::<14, 2, 10, 2>() } }
K! { #[kani::unwind(24)] fn c11_sub_inline() { sub_then_mutate::<12, 3, 4, 6>() } }
K! { #[kani::unwind(20)] fn c11_clone_pop_owned() { clone_then_pop::<10>() } }
K! { #[kani::unwind(20)] fn c11_clone_pop_9to8() { clone_then_pop::<9>() } }
K! { #[kani::unwind(20)] fn c11_pops_owned() { pops::<12, 2, 1>() } }
K! { #[kani::unwind(20)] fn c11_pops_to_inline() { pops::<11, 3, 2>() } }
K! { #[kani::unwind(20)] fn c11_pops_inline() { pops::<6, 1, 1>() } }
K! { #[kani::unwind(28)] fn c11_merge_adjacent() { merge_adjacent::<20, 10, 2>() } }
K! { #[kani::unwind(20)] fn c11_send_owned() { send_roundtrip::<11>() } }
K! { #[kani::unwind(20)] fn c11_send_inline() { send_roundtrip::<4>() } }
K! { #[kani::unwind(20)] fn c11_utf8_boundaries() { utf8_boundaries() } }



// ---- C12: every drop order of three tendrils sharing one buffer ---------------------------------------------------------
fn drop_orders<const L: usize, const SEL: u8>() {
    let src = bytes::<L>();
    let t = ByteTendril::from_slice(&src);
    let a = t.clone();
    let b = t.subtendril(1, 9);
    let sel: u8 = SEL;
    // survivors are read after each drop: a use-after-free or double free is a failed CBMC pointer check
    match sel {
        0 => {
            drop(t);
            assert!(a[0] == src[0] && b[0] == src[1]);
            drop(a);
            assert!(b[8] == src[9]);
            drop(b);
        },
        1 => {
            drop(t);
            drop(b);
            assert!(a[L - 1] == src[L - 1]);
            drop(a);
        },
        2 => {
            drop(a);
            assert!(t[0] == src[0]);
            drop(t);
            assert!(b[0] == src[1]);
            drop(b);
        },
        3 => {
            drop(a);
            drop(b);
            assert!(t[L - 1] == src[L - 1]);
            drop(t);
        },
        4 => {
            drop(b);
            drop(t);
            assert!(a[1] == src[1]);
            drop(a);
        },
        _ => {
            drop(b);
            drop(a);
            assert!(t[2] == src[2]);
            drop(t);
        },
    }
    kcover!(true, "reachable");
}

K! { #[kani::unwind(16)] fn c12_drop_order_0() { drop_orders::<12, 0>() } }
K! { #[kani::unwind(16)] fn c12_drop_order_1() { drop_orders::<12, 1>() } }
K! { #[kani::unwind(16)] fn c12_drop_order_2() { drop_orders::<12, 2>() } }
K! { #[kani::unwind(16)] fn c12_drop_order_3() { drop_orders::<12, 3>() } }
K! { #[kani::unwind(16)] fn c12_drop_order_4() { drop_orders::<12, 4>() } }
K! { #[kani::unwind(16)] fn c12_drop_order_5() { drop_orders::<12, 5>() } }
K! { #[kani::unwind(24)] fn c11_merge_adjacent_18() { merge_adjacent::<18, 9, 1>() } }


// ---- UTF-8 tendril: checked cuts succeed exactly on character boundaries (symbolic text and cut position) ---------------
fn utf8_cut_sym<const L: usize>() {
    let b: [u8; L] = any();
    assume(crate::utf8::valid_utf8(&b));
    // SAFETY: assumed well-formed
    let s = unsafe { core::str::from_utf8_unchecked(&b) };
    let n: u32 = any();
    assume(n as usize <= L);
    let boundary = n == 0 || n as usize == L || (b[n as usize] & 0xC0) != 0x80;
    let mut t = StrTendril::from_slice(s);
    let r = t.try_pop_front(n);
    assert!(r.is_ok() == boundary, "try_pop_front accepted/refused a cut inconsistently with character boundaries");
    if boundary {
        assert!(crate::utf8::valid_utf8(t.as_bytes()), "UTF-8 tendril holds invalid UTF-8 after pop_front");
        assert!(t.len32() == L as u32 - n);
    } else {
        assert!(t.len32() == L as u32, "a refused cut changed the tendril");
    }
    let mut u = StrTendril::from_slice(s);
    let r2 = u.try_pop_back(L as u32 - n);
    assert!(r2.is_ok() == boundary);
    let v = StrTendril::from_slice(s);
    assert!(v.try_subtendril(0, n).is_ok() == boundary);
    kcover!(!boundary, "a cut inside a character is reachable");
    kcover!(boundary && n > 0 && (n as usize) < L, "an inner boundary cut is reachable");
}

// ---- push_tendril between two shared tendrils of DIFFERENT buffers whose offsets happen to line up ---------------------
fn push_tendril_other_buffer<const L1: usize, const L2: usize>() {
    let s1 = bytes::<L1>();
    let s2 = bytes::<L2>();
    let mut t1 = ByteTendril::from_slice(&s1);
    t1.clear();
    let mut a = t1.clone();
    let t2 = ByteTendril::from_slice(&s2);
    let b = t2.clone();
    a.push_tendril(&b);
    // (two bytes are compared instead of the whole content: the full comparison across three heap objects is what
    // exhausted CBMC's memory)
    assert!(a.len32() as usize == L2 && a[0] == s2[0] && a[L2 - 1] == s2[L2 - 1], "push_tendril produced bytes of the wrong buffer");
    kcover!(true, "reachable");
    // (heap values are forgotten here: this harness is about values; drop glue of the same shapes is exercised elsewhere)
    core::mem::forget(a);
    core::mem::forget(b);
    core::mem::forget(t1);
    core::mem::forget(t2);
}

// ---- C12: a heap tendril that is short (cleared / reserved) is still shared correctly by clone ----------------------------
fn clear_clone_drop<const L: usize>() {
    let src = bytes::<L>();
    let mut t = ByteTendril::from_slice(&src);
    t.clear();
    let c = t.clone();
    assert!(c.len32() == 0);
    drop(t);
    let mut c = c;
    c.push_slice(&src[..3]);
    assert!(reg(&c) == Reg::of(&src[..3]));
    drop(c);
    kcover!(true, "reachable");
}

fn reserve_clone_drop() {
    let add = bytes::<3>();
    let mut t = ByteTendril::with_capacity(16);
    t.push_slice(&add);
    let c = t.clone();
    drop(t);
    assert!(reg(&c) == Reg::of(&add));
    drop(c);
    kcover!(true, "reachable");
}

K! { #[kani::unwind(8)] fn c11_utf8_cut_sym_4() { utf8_cut_sym::<4>() } }
K! { #[kani::unwind(10)] fn c11_utf8_cut_sym_6() { utf8_cut_sym::<6>() } }
K! { #[kani::unwind(20)] fn c11_push_tendril_other_buffer() { push_tendril_other_buffer::<9, 9>() } }
K! { #[kani::unwind(20)] fn c12_clear_clone_drop() { clear_clone_drop::<12>() } }
K! { #[kani::unwind(20)] fn c12_reserve_clone_drop() { reserve_clone_drop() } }

// ---- WTF-8: a lead surrogate at the end of the tendril and a trail surrogate at the start of the pushed bytes are rejoined ----
// into one 4-byte character (`Fixup` with drop_left = drop_right = 3, insert_len = 4): the only format with a non-trivial fixup.
fn wtf8_join<const L: usize, const R: usize>() {
    use tendril::fmt::WTF8;
    use tendril::Tendril;
    let a = bytes::<L>();
    let r = bytes::<R>();
    let mut i = 0;
    while i < L {
        assume(a[i] < 0x80);
        i += 1;
    }
    i = 0;
    while i < R {
        assume(r[i] < 0x80);
        i += 1;
    }
    let h1: u8 = any();
    let h2: u8 = any();
    let l1: u8 = any();
    let l2: u8 = any();
    assume(h1 >= 0xA0 && h1 <= 0xAF && h2 >= 0x80 && h2 <= 0xBF); // ED A0..AF xx = U+D800..DBFF
    assume(l1 >= 0xB0 && l1 <= 0xBF && l2 >= 0x80 && l2 <= 0xBF); // ED B0..BF xx = U+DC00..DFFF
    let mut lhs = Reg::of(&a);
    lhs.push(0xED);
    lhs.push(h1);
    lhs.push(h2);
    let mut lv = [0u8; 16];
    let mut rv = [0u8; 16];
    i = 0;
    while i < L {
        lv[i] = a[i];
        i += 1;
    }
    lv[L] = 0xED;
    lv[L + 1] = h1;
    lv[L + 2] = h2;
    rv[0] = 0xED;
    rv[1] = l1;
    rv[2] = l2;
    i = 0;
    while i < R {
        rv[3 + i] = r[i];
        i += 1;
    }
    // (the unvalidated constructors are used: validation of the symbolic filler is what kept CBMC's symbolic execution from
    // finishing in 10 min; both byte strings are well-formed WTF-8 by construction, and the fix-up under test is the same code)
    let mut t: Tendril<WTF8> = unsafe { Tendril::from_byte_slice_without_validating(&lv[..L + 3]) };
    let keep = t.clone();
    unsafe { t.push_bytes_without_validating(&rv[..R + 3]) };
    let hi = (((h1 & 0x0F) as u32) << 6) | (h2 & 0x3F) as u32;
    let lo = (((l1 & 0x0F) as u32) << 6) | (l2 & 0x3F) as u32;
    let n = 0x10000 + (hi << 10) + lo;
    let mut want = Reg::of(&a);
    want.push(0xF0 | (n >> 18) as u8);
    want.push(0x80 | ((n >> 12) & 0x3F) as u8);
    want.push(0x80 | ((n >> 6) & 0x3F) as u8);
    want.push(0x80 | (n & 0x3F) as u8);
    i = 0;
    while i < R {
        want.push(r[i]);
        i += 1;
    }
    assert!(t.len32() as usize == L + 4 + R, "rejoined surrogate pair has the wrong length");
    assert!(Reg::of(&t.as_bytes()[..]) == want, "surrogate pair rejoined into the wrong bytes");
    assert!(Reg::of(&keep.as_bytes()[..]) == lhs, "clone changed when a surrogate pair was rejoined in the original");
    kcover!(true, "reachable");
}
K! { #[kani::unwind(36)] fn c11_wtf8_join_inline() { wtf8_join::<1, 0>() } }
// (wtf8_join::<8, 2>, an 11-byte heap receiver: CBMC ran out of memory at 20 GB on the two unwinding assertions of futf::classify - not registered)
K! { #[kani::unwind(18)] fn c11_wtf8_join_grow() { wtf8_join::<5, 0>() } }

// ---- push_tendril between two shared tendrils of DIFFERENT heap buffers where `other` starts at the offset at which `self`
// ends in its own buffer (the zero-copy merge must not be taken: the bytes live in another allocation) -------------------------
fn push_tendril_lined_up<const P: usize, const L2: usize>() {
    let add = bytes::<P>();
    let s2 = bytes::<L2>();
    let mut t1 = ByteTendril::with_capacity(16);
    t1.push_slice(&add);
    let mut a = t1.clone(); // shared, offset 0, ends at P in its buffer
    let t2 = ByteTendril::from_slice(&s2);
    let b = t2.subtendril(P as u32, (L2 - P) as u32); // shared, offset P in ANOTHER buffer
    a.push_tendril(&b);
    assert!(a.len32() as usize == L2, "push_tendril: wrong length");
    assert!(a[0] == add[0] && a[P - 1] == add[P - 1], "push_tendril lost the receiver's bytes");
    assert!(a[P] == s2[P] && a[L2 - 1] == s2[L2 - 1], "push_tendril produced bytes that are not the argument's");
    assert!(t1[0] == add[0] && t1.len32() as usize == P, "push_tendril onto a clone changed the original");
    kcover!(true, "reachable");
    core::mem::forget(a);
    core::mem::forget(b);
    core::mem::forget(t1);
    core::mem::forget(t2);
}
// (measured: CBMC out of memory at 30 GB during propositional reduction - kept for reference, not registered in run.py)
K! { #[kani::unwind(20)] fn c11_push_tendril_lined_up() { push_tendril_lined_up::<3, 12>() } }

pub const TABLE: &[(&str, fn())] = &[
    ("c11_clone_push_inline", c11_clone_push_inline),
    ("c11_clone_push_grow", c11_clone_push_grow),
    ("c11_clone_push_owned", c11_clone_push_owned),
    ("c11_sub_shared", c11_sub_shared),
    ("c11_sub_inline", c11_sub_inline),
    ("c11_clone_pop_owned", c11_clone_pop_owned),
    ("c11_clone_pop_9to8", c11_clone_pop_9to8),
    ("c11_pops_owned", c11_pops_owned),
    ("c11_pops_to_inline", c11_pops_to_inline),
    ("c11_pops_inline", c11_pops_inline),
    ("c11_merge_adjacent", c11_merge_adjacent),
    ("c11_send_owned", c11_send_owned),
    ("c11_send_inline", c11_send_inline),
    ("c11_utf8_boundaries", c11_utf8_boundaries),
    ("c12_drop_order_0", c12_drop_order_0),
    ("c12_drop_order_1", c12_drop_order_1),
    ("c12_drop_order_2", c12_drop_order_2),
    ("c12_drop_order_3", c12_drop_order_3),
    ("c12_drop_order_4", c12_drop_order_4),
    ("c12_drop_order_5", c12_drop_order_5),
    ("c11_merge_adjacent_18", c11_merge_adjacent_18),
    ("c11_utf8_cut_sym_4", c11_utf8_cut_sym_4),
    ("c11_utf8_cut_sym_6", c11_utf8_cut_sym_6),
    ("c11_push_tendril_other_buffer", c11_push_tendril_other_buffer),
    ("c12_clear_clone_drop", c12_clear_clone_drop),
    ("c12_reserve_clone_drop", c12_reserve_clone_drop),
    ("c11_push_tendril_lined_up", c11_push_tendril_lined_up),
    ("c11_wtf8_join_inline", c11_wtf8_join_inline),
    ("c11_wtf8_join_grow", c11_wtf8_join_grow),
];
