fn main() {
    #[cfg(not(kani))]
    verif_kani_td::k::replay_main(verif_kani_td::TABLE)
}
