use crate::k::{any, assume};
use crate::{kcover, shapes, Reg, K};
use std::borrow::Cow;
use tendril::stream::{TendrilSink, Utf8LossyDecoder};
use tendril::{fmt, ByteTendril, StrTendril};

/// inner sink: records the character stream it is given and counts error() calls
pub struct Rec {
    pub out: Reg,
    pub errs: u32,
}
impl TendrilSink<fmt::UTF8> for Rec {
    fn process(&mut self, t: StrTendril) {
        self.out.push_all(t.as_bytes());
        core::mem::forget(t);
    }
    fn error(&mut self, d: Cow<'static, str>) {
        self.errs += 1;
        core::mem::forget(d);
    }
    type Output = Rec;
    fn finish(self) -> Rec {
        self
    }
}

/// Reference: lossy UTF-8 decoding with one U+FFFD per maximal ill-formed subsequence
/// (WHATWG Encoding "UTF-8 decoder" == String::from_utf8_lossy), counting replacements.
pub fn lossy_ref(b: &[u8]) -> (Reg, u32) {
    let mut out = Reg::new();
    let mut errs = 0u32;
    let n = b.len();
    let mut i = 0;
    while i < n {
        let c = b[i];
        if c < 0x80 {
            out.push(c);
            i += 1;
            continue;
        }
        let (need, lo, hi) = match c {
            0xC2..=0xDF => (1, 0x80, 0xBF),
            0xE0 => (2, 0xA0, 0xBF),
            0xED => (2, 0x80, 0x9F),
            0xE1..=0xEF => (2, 0x80, 0xBF),
            0xF0 => (3, 0x90, 0xBF),
            0xF1..=0xF3 => (3, 0x80, 0xBF),
            0xF4 => (3, 0x80, 0x8F),
            _ => (0, 0, 0),
        };
        if need == 0 {
            out.push_all(&[0xEF, 0xBF, 0xBD]);
            errs += 1;
            i += 1;
            continue;
        }
        let mut j = 1;
        let mut ok = true;
        while j <= need {
            if i + j >= n {
                // truncated at end of input: one replacement for what is there
                out.push_all(&[0xEF, 0xBF, 0xBD]);
                errs += 1;
                i = n;
                ok = false;
                break;
            }
            let x = b[i + j];
            let (l, h) = if j == 1 { (lo, hi) } else { (0x80, 0xBF) };
            if x < l || x > h {
                // maximal subpart = the j bytes accepted so far; x is looked at again
                out.push_all(&[0xEF, 0xBF, 0xBD]);
                errs += 1;
                i += j;
                ok = false;
                break;
            }
            j += 1;
        }
        if ok {
            out.push_all(&b[i..i + need + 1]);
            i += need + 1;
        }
    }
    (out, errs)
}

/// N symbolic bytes fed as three chunks of A, B, N-A-B bytes (empty chunks included)
fn dec<const N: usize, const A: usize, const B: usize>() {
    let bytes: [u8; N] = any();
    let mut d = Utf8LossyDecoder::new(Rec { out: Reg::new(), errs: 0 });
    d.process(ByteTendril::from_slice(&bytes[..A]));
    d.process(ByteTendril::from_slice(&bytes[A..A + B]));
    d.process(ByteTendril::from_slice(&bytes[A + B..]));
    let got = d.finish();
    let (want, errs) = lossy_ref(&bytes);
    #[cfg(not(kani))]
    {
        // native replay additionally pins the reference to std
        let s = String::from_utf8_lossy(&bytes);
        let mut r = Reg::new();
        r.push_all(s.as_bytes());
        assert!(r == want, "reference decoder disagrees with String::from_utf8_lossy");
    }
    assert!(got.out == want, "decoded stream differs from a whole-input lossy decode");
    assert!(got.errs == errs, "number of error() calls differs from the number of replacements");
    kcover!(errs == 0 && bytes[0] >= 0x80, "a well-formed multi-byte input is reachable");
    kcover!(errs > 0, "an ill-formed input is reachable");
}

// all compositions (A, B, rest) of 4 = 15 shapes
K! { #[kani::unwind(7)] fn c10_dec4_a() { shapes!(dec; (4,0,0) (4,0,4) (4,4,0) (4,1,0) (4,1,3)) } }
K! { #[kani::unwind(7)] fn c10_dec4_b() { shapes!(dec; (4,1,1) (4,1,2) (4,2,0) (4,2,1) (4,2,2)) } }
K! { #[kani::unwind(7)] fn c10_dec4_c() { shapes!(dec; (4,3,0) (4,3,1) (4,0,1) (4,0,2) (4,0,3)) } }
// 5 bytes: every two-cut split with non-empty middle or edge, 20 shapes
K! { #[kani::unwind(8)] fn c10_dec5_a() { shapes!(dec; (5,1,1) (5,1,2) (5,1,3) (5,1,4) (5,2,1)) } }
K! { #[kani::unwind(8)] fn c10_dec5_b() { shapes!(dec; (5,2,2) (5,2,3) (5,3,1) (5,3,2) (5,4,1)) } }
K! { #[kani::unwind(8)] fn c10_dec5_c() { shapes!(dec; (5,0,1) (5,0,2) (5,0,3) (5,0,4) (5,0,5)) } }
K! { #[kani::unwind(8)] fn c10_dec5_d() { shapes!(dec; (5,1,0) (5,2,0) (5,3,0) (5,4,0) (5,5,0)) } }
// 6 bytes: a 4-byte sequence followed by a 2-byte one, cut everywhere
K! { #[kani::unwind(9)] fn c10_dec6_a() { shapes!(dec; (6,1,1) (6,1,2) (6,1,3) (6,1,4) (6,1,5)) } }
K! { #[kani::unwind(9)] fn c10_dec6_b() { shapes!(dec; (6,2,1) (6,2,2) (6,2,3) (6,2,4) (6,3,1)) } }
K! { #[kani::unwind(9)] fn c10_dec6_c() { shapes!(dec; (6,3,2) (6,3,3) (6,4,1) (6,4,2) (6,5,1)) } }
K! { #[kani::unwind(9)] fn c10_dec6_d() { shapes!(dec; (6,0,1) (6,0,2) (6,0,3) (6,0,4) (6,0,5) (6,0,6)) } }

// the oracle itself: reference decoder == String::from_utf8_lossy for every 4-byte input
K! { #[kani::unwind(14)] fn c10_ref_is_std_4() {
    let bytes: [u8; 4] = any();
    let (want, _) = lossy_ref(&bytes);
    let s = String::from_utf8_lossy(&bytes);
    let mut r = Reg::new();
    r.push_all(s.as_bytes());
    assert!(r == want);
    kcover!(want.n == 12, "four replacements reachable");
    core::mem::forget(s);
} }

K! { #[kani::unwind(7)] fn c10_probe_1shape() { shapes!(dec; (4,1,2)) } }
