"""Reference lossy UTF-8 decoder: one U+FFFD per maximal ill-formed subsequence (Unicode 3.9, == WHATWG Encoding
"UTF-8 decoder" == String::from_utf8_lossy), over possibly symbolic bytes (decisions go through m.choose/branch_bool).
Returns (output bytes, number of replacements)."""
import z3

FFFD = [0xEF, 0xBF, 0xBD]


def rng(x, lo, hi):
    if isinstance(x, int):
        return lo <= x <= hi
    return z3.And(z3.UGE(x, lo), z3.ULE(x, hi))


def B(m, c, what=""):
    if isinstance(c, bool):
        return c
    return m.branch_bool(c, what)


def decode(m, b):
    out, errs = [], 0
    n = len(b)
    i = 0
    while i < n:
        c = b[i]
        if B(m, rng(c, 0, 0x7F), "ref ascii"):
            out.append(c)
            i += 1
            continue
        if B(m, rng(c, 0xC2, 0xDF), "ref lead2"):
            need, lo, hi = 1, 0x80, 0xBF
        elif B(m, (c == 0xE0), "ref e0"):
            need, lo, hi = 2, 0xA0, 0xBF
        elif B(m, (c == 0xED), "ref ed"):
            need, lo, hi = 2, 0x80, 0x9F
        elif B(m, rng(c, 0xE1, 0xEF), "ref lead3"):
            need, lo, hi = 2, 0x80, 0xBF
        elif B(m, (c == 0xF0), "ref f0"):
            need, lo, hi = 3, 0x90, 0xBF
        elif B(m, (c == 0xF4), "ref f4"):
            need, lo, hi = 3, 0x80, 0x8F
        elif B(m, rng(c, 0xF1, 0xF3), "ref lead4"):
            need, lo, hi = 3, 0x80, 0xBF
        else:
            out += FFFD
            errs += 1
            i += 1
            continue
        j = 1
        ok = True
        while j <= need:
            if i + j >= n:
                out += FFFD
                errs += 1
                i = n
                ok = False
                break
            x = b[i + j]
            l, h = (lo, hi) if j == 1 else (0x80, 0xBF)
            if not B(m, rng(x, l, h), "ref cont"):
                out += FFFD
                errs += 1
                i += j
                ok = False
                break
            j += 1
        if ok:
            out += b[i:i + need + 1]
            i += need + 1
    return out, errs
