"""WHATWG HTML 'algorithm for extracting a character encoding from a meta element', transcribed over a list of
bytes that may be symbolic (decisions go through m.branch_bool).  Returns the label bytes or None."""
import z3


def _b(m, cond, what=""):
    if isinstance(cond, bool):
        return cond
    return m.branch_bool(cond, what)


def is_ws(b):
    if isinstance(b, int):
        return b in (9, 10, 12, 13, 32)
    return z3.Or([b == v for v in (9, 10, 12, 13, 32)])


def eq_ic(b, ch):
    lo, up = ord(ch), ord(ch.upper())
    if isinstance(b, int):
        return b in (lo, up)
    return z3.Or(b == lo, b == up)


def extract(m, s):
    n = len(s)
    pos = 0
    while True:
        # 2. find the first seven characters after position that match "charset" (ASCII case-insensitively)
        found = None
        while pos + 7 <= n:
            conds = [eq_ic(s[pos + i], "charset"[i]) for i in range(7)]
            if any(c is False for c in conds):
                ok = False
            else:
                cs = [c for c in conds if c is not True]
                ok = _b(m, z3.And(cs) if len(cs) > 1 else (cs[0] if cs else True), "ref: charset at %d" % pos)
            if ok:
                found = pos
                break
            pos += 1
        if found is None:
            return None
        pos = found + 7
        # 3. skip ASCII whitespace
        while pos < n and _b(m, is_ws(s[pos]), "ref: ws"):
            pos += 1
        # 4. next character must be '='; otherwise continue the search from here
        if pos >= n:
            return None
        if _b(m, (s[pos] == 0x3D), "ref: ="):
            break
    pos += 1
    # 5. skip ASCII whitespace
    while pos < n and _b(m, is_ws(s[pos]), "ref: ws2"):
        pos += 1
    # 6.
    if pos >= n:
        return None
    c = s[pos]
    for q in (0x22, 0x27):
        if _b(m, (c == q), "ref: quote"):
            j = pos + 1
            while j < n:
                if _b(m, (s[j] == q), "ref: closing quote"):
                    return s[pos + 1:j]
                j += 1
            return None
    j = pos
    while j < n:
        if _b(m, z3.Or(is_ws(s[j]), s[j] == 0x3B) if not isinstance(s[j], int) else (is_ws(s[j]) or s[j] == 0x3B), "ref: terminator"):
            break
        j += 1
    return s[pos:j]
