"""Reference HTML tokenizer: a direct transcription of WHATWG HTML 13.2.5 (Tokenization),
written against the same decision interface as engine M's interpreter (`m.choose` /
`m.branch_bool`), so it can be run over *symbolic* characters: every character test forks
the path and adds its condition to the path condition.

Conventions that make "every tokenizer start state" meaningful (they do not change the
algorithm on configurations the algorithm itself can reach):
  * the current tag token initially is a start tag with an empty name and no attributes,
  * the current attribute initially has an empty name and value, and an attribute whose
    name is empty when it is finished is discarded; the value collected under the empty name
    stays in the value buffer until an attribute with a name takes it (this only ever happens
    when the run STARTS in an attribute state without a name - TokenizerOpts::initial_state is
    documented as test-only - and mirrors what the implementation does there),
  * the current comment is empty, the current DOCTYPE has a missing name and ids,
  * the temporary buffer is empty.
Output tokens use the snapshot form of mirsym.tok (characters are emitted one by one and
merged by tok.normalize; a U+0000 character token is written ('Null',)).
"""
import z3

EOF = None

WS = (0x09, 0x0A, 0x0C, 0x20)


def is_sym(v):
    return isinstance(v, z3.ExprRef)


def eqc(c, v):
    if isinstance(c, int):
        return c == v
    return c == v


def in_set(c, vals):
    if isinstance(c, int):
        return c in vals
    return z3.Or([c == v for v in vals])


def in_rng(c, lo, hi):
    if isinstance(c, int):
        return lo <= c <= hi
    return z3.And(z3.UGE(c, lo), z3.ULE(c, hi))


def lower(c):
    if isinstance(c, int):
        return c + 32 if 65 <= c <= 90 else c
    return z3.If(z3.And(z3.UGE(c, 65), z3.ULE(c, 90)), c + 32, c)


def b_or(*xs):
    if any(x is True for x in xs):
        return True
    ys = [x for x in xs if x is not False]
    if not ys:
        return False
    return z3.Or(ys) if len(ys) > 1 else ys[0]


def b_not(x):
    return (not x) if isinstance(x, bool) else z3.Not(x)


def b_and(*xs):
    if any(x is False for x in xs):
        return False
    ys = [x for x in xs if x is not True]
    if not ys:
        return True
    return z3.And(ys) if len(ys) > 1 else ys[0]


def seq_eq(xs, ys):
    if len(xs) != len(ys):
        return False
    return b_and(*[eqc(a, b) if not (isinstance(a, int) and isinstance(b, int)) else a == b for a, b in zip(xs, ys)])


C1_REPLACEMENTS = {
    0x80: 0x20AC, 0x82: 0x201A, 0x83: 0x0192, 0x84: 0x201E, 0x85: 0x2026, 0x86: 0x2020, 0x87: 0x2021, 0x88: 0x02C6,
    0x89: 0x2030, 0x8A: 0x0160, 0x8B: 0x2039, 0x8C: 0x0152, 0x8E: 0x017D, 0x91: 0x2018, 0x92: 0x2019, 0x93: 0x201C,
    0x94: 0x201D, 0x95: 0x2022, 0x96: 0x2013, 0x97: 0x2014, 0x98: 0x02DC, 0x99: 0x2122, 0x9A: 0x0161, 0x9B: 0x203A,
    0x9C: 0x0153, 0x9E: 0x017E, 0x9F: 0x0178,
}


class Ref:
    def __init__(self, m, chars, state, last_start_tag, on_start, foreign, entities, normalize_input=True):
        self.m = m
        self.state = state
        self.last_start_tag = list(last_start_tag) if last_start_tag is not None else None
        self.on_start = on_start
        self.foreign = foreign
        self.ent = entities            # dict name (without &) -> (cp1, cp2)
        self.out = []
        self.temp = []
        self.return_state = None
        self.tag = {"kind": "StartTag", "name": [], "self": False, "attrs": [], "dup": False}
        self.attr = [[], []]
        self.attr_open = False          # an attribute has been started (spec: "start a new attribute")
        self.comment = []
        self.doctype = {"name": None, "pub": None, "sys": None, "fq": False}
        self.code = 0
        self.inp = self.preprocess(chars) if normalize_input else list(chars)
        self.i = 0
        self.steps = 0

    # ---- decisions ---------------------------------------------------------------------
    def B(self, cond, what=""):
        if isinstance(cond, bool):
            return cond
        return self.m.branch_bool(cond, what)

    def cls(self, c, table):
        """table: list of (label, condition builder).  One fork among mutually exclusive classes; 'else' otherwise."""
        if c is EOF:
            return "EOF"
        opts, neg = [], []
        for lab, cond in table:
            cnd = cond(c)
            if cnd is True:
                return lab
            if cnd is False:
                continue
            opts.append((lab, b_and(cnd, *neg)))
            neg.append(b_not(cnd))
        if not opts:
            return "else"
        opts.append(("else", b_and(*neg)))
        return self.m.choose(opts, "ref class")

    # ---- input -----------------------------------------------------------------------------
    def preprocess(self, chars):
        """13.2.3.5: CR LF -> LF, CR -> LF"""
        out = []
        prev_cr = False
        for c in chars:
            if prev_cr:
                prev_cr = False
                if self.B(eqc(c, 0x0A), "pre: LF after CR"):
                    continue
            if self.B(eqc(c, 0x0D), "pre: CR"):
                out.append(0x0A)
                prev_cr = True
            else:
                out.append(c)
        return out

    def next(self):
        if self.i < len(self.inp):
            c = self.inp[self.i]
            self.i += 1
            return c
        self.i += 1
        return EOF

    def reconsume(self):
        self.i -= 1

    # ---- emission --------------------------------------------------------------------------
    def emit_char(self, c):
        if isinstance(c, int):
            self.out.append((("Null",) if c == 0 else ("Chars", (c,)), 0))
            return
        if self.B(eqc(c, 0), "emit NUL?"):
            self.out.append((("Null",), 0))
        else:
            self.out.append((("Chars", (c,)), 0))

    def emit_chars(self, cs):
        for c in cs:
            self.emit_char(c)

    def emit_eof(self):
        self.out.append((("EOF",), 0))

    def emit_comment(self):
        self.out.append((("Comment", tuple(self.comment)), 0))
        self.comment = []

    def emit_doctype(self):
        d = self.doctype
        t = lambda x: None if x is None else tuple(x)
        self.out.append((("Doctype", t(d["name"]), t(d["pub"]), t(d["sys"]), d["fq"]), 0))
        self.doctype = {"name": None, "pub": None, "sys": None, "fq": False}

    def new_tag(self, kind):
        self.tag = {"kind": kind, "name": [], "self": False, "attrs": [], "dup": False}
        # (start-state convention, see finish_attr: a value collected under the empty name stays pending)
        self.attr = [[], self.attr[1]]
        self.attr_open = False

    def start_attr(self):
        self.finish_attr()
        self.attr = [[], self.attr[1]]
        self.attr_open = True

    def finish_attr(self):
        """leaving the attribute name state / emitting the tag: duplicate names are dropped (with their value)"""
        name, val = self.attr
        self.attr = [[], []]
        self.attr_open = False
        if not name:
            # start-state convention only (the algorithm never finishes an attribute with an empty name):
            # a value collected before any name exists stays pending, as in the implementation
            self.attr = [[], val]
            return
        for n, _ in self.tag["attrs"]:
            if self.B(seq_eq(n, name), "duplicate attribute?"):
                self.tag["dup"] = True
                return
        self.tag["attrs"].append((tuple(name), tuple(val)))

    def emit_tag(self):
        self.finish_attr()
        t = self.tag
        self.out.append((("Tag", t["kind"], tuple(t["name"]), t["self"], tuple(t["attrs"]), t["dup"]), 0))
        if t["kind"] == "StartTag":
            self.last_start_tag = list(t["name"])
            # the tree construction stage may switch the tokenizer state
            a = self.on_start
            if a == "Plaintext":
                self.state = "Plaintext"
            elif a == "Script":
                self.state = "Data"
            elif isinstance(a, tuple) and a[0] == "RawData":
                self.state = ("RawData", a[1])
        self.new_tag("StartTag")

    def appropriate_end_tag(self):
        if self.tag["kind"] != "EndTag" or self.last_start_tag is None:
            return False
        return self.B(seq_eq(self.tag["name"], self.last_start_tag), "appropriate end tag?")

    # ---- main loop ---------------------------------------------------------------------------
    def run(self):
        while True:
            self.steps += 1
            if self.steps > 4000:
                raise RuntimeError("reference tokenizer: step budget")
            st = self.state
            name = st if isinstance(st, str) else st[0]
            if getattr(self, "s_" + name)(st[1] if not isinstance(st, str) else None):
                return self.out

    # helper predicates
    T_ALPHA_U = ("upper", lambda c: in_rng(c, 65, 90))
    T_ALPHA_L = ("lower", lambda c: in_rng(c, 97, 122))
    T_WS = ("ws", lambda c: in_set(c, WS))
    T_NUL = ("nul", lambda c: eqc(c, 0))

    @staticmethod
    def ch(label, v):
        return (label, lambda c, v=v: eqc(c, v))

    # ---- 13.2.5.1 data ---------------------------------------------------------------------------
    def s_Data(self, _):
        c = self.next()
        k = self.cls(c, [self.ch("amp", 0x26), self.ch("lt", 0x3C), self.T_NUL])
        if k == "amp":
            self.return_state = "Data"
            self.state = "CharacterReference"
        elif k == "lt":
            self.state = "TagOpen"
        elif k == "nul":
            self.emit_char(0)
        elif k == "EOF":
            self.emit_eof()
            return True
        else:
            self.emit_char(c)

    # ---- RCDATA / RAWTEXT / script data / escaped -------------------------------------------------
    def s_RawData(self, kind):
        c = self.next()
        if kind == "Rcdata":
            k = self.cls(c, [self.ch("amp", 0x26), self.ch("lt", 0x3C), self.T_NUL])
            if k == "amp":
                self.return_state = ("RawData", "Rcdata")
                self.state = "CharacterReference"
                return
        elif kind in ("Rawtext", "ScriptData"):
            k = self.cls(c, [self.ch("lt", 0x3C), self.T_NUL])
        else:
            # script data escaped / double escaped
            k = self.cls(c, [self.ch("dash", 0x2D), self.ch("lt", 0x3C), self.T_NUL])
            if k == "dash":
                self.state = ("ScriptDataEscapedDash", kind[1])
                self.emit_char(0x2D)
                return
            if k == "lt" and kind[1] == "DoubleEscaped":
                self.state = ("RawLessThanSign", kind)
                self.emit_char(0x3C)
                return
        if k == "lt":
            self.state = ("RawLessThanSign", kind)
        elif k == "nul":
            self.emit_char(0xFFFD)
        elif k == "EOF":
            self.emit_eof()
            return True
        else:
            self.emit_char(c)

    def s_Plaintext(self, _):
        c = self.next()
        k = self.cls(c, [self.T_NUL])
        if k == "nul":
            self.emit_char(0xFFFD)
        elif k == "EOF":
            self.emit_eof()
            return True
        else:
            self.emit_char(c)

    # ---- tag open / end tag open / tag name -----------------------------------------------------------
    def s_TagOpen(self, _):
        c = self.next()
        k = self.cls(c, [self.ch("bang", 0x21), self.ch("slash", 0x2F), self.T_ALPHA_U, self.T_ALPHA_L, self.ch("q", 0x3F)])
        if k == "bang":
            self.state = "MarkupDeclarationOpen"
        elif k == "slash":
            self.state = "EndTagOpen"
        elif k in ("upper", "lower"):
            self.new_tag("StartTag")
            self.reconsume()
            self.state = "TagName"
        elif k == "q":
            self.comment = []
            self.reconsume()
            self.state = "BogusComment"
        elif k == "EOF":
            self.emit_char(0x3C)
            self.emit_eof()
            return True
        else:
            self.emit_char(0x3C)
            self.reconsume()
            self.state = "Data"

    def s_EndTagOpen(self, _):
        c = self.next()
        k = self.cls(c, [self.T_ALPHA_U, self.T_ALPHA_L, self.ch("gt", 0x3E)])
        if k in ("upper", "lower"):
            self.new_tag("EndTag")
            self.reconsume()
            self.state = "TagName"
        elif k == "gt":
            self.state = "Data"
        elif k == "EOF":
            self.emit_char(0x3C)
            self.emit_char(0x2F)
            self.emit_eof()
            return True
        else:
            self.comment = []
            self.reconsume()
            self.state = "BogusComment"

    def s_TagName(self, _):
        c = self.next()
        k = self.cls(c, [self.T_WS, self.ch("slash", 0x2F), self.ch("gt", 0x3E), self.T_ALPHA_U, self.T_NUL])
        if k == "ws":
            self.state = "BeforeAttributeName"
        elif k == "slash":
            self.state = "SelfClosingStartTag"
        elif k == "gt":
            self.state = "Data"
            self.emit_tag()
        elif k == "upper":
            self.tag["name"].append(c + 32)
        elif k == "nul":
            self.tag["name"].append(0xFFFD)
        elif k == "EOF":
            self.emit_eof()
            return True
        else:
            self.tag["name"].append(c)

    # ---- RCDATA/RAWTEXT/script less-than sign, end tag open, end tag name -------------------------------
    def s_RawLessThanSign(self, kind):
        c = self.next()
        if kind in ("Rcdata", "Rawtext"):
            k = self.cls(c, [self.ch("slash", 0x2F)])
        elif kind == "ScriptData":
            k = self.cls(c, [self.ch("slash", 0x2F), self.ch("bang", 0x21)])
            if k == "bang":
                self.state = ("ScriptDataEscapeStart", "Escaped")
                self.emit_char(0x3C)
                self.emit_char(0x21)
                return
        elif kind[1] == "Escaped":
            k = self.cls(c, [self.ch("slash", 0x2F), self.T_ALPHA_U, self.T_ALPHA_L])
            if k in ("upper", "lower"):
                self.temp = []
                self.emit_char(0x3C)
                self.reconsume()
                self.state = ("ScriptDataEscapeStart", "DoubleEscaped")
                return
        else:
            # script data double escaped less-than sign state
            k = self.cls(c, [self.ch("slash", 0x2F)])
            if k == "slash":
                self.temp = []
                self.state = "ScriptDataDoubleEscapeEnd"
                self.emit_char(0x2F)
                return
            self.reconsume()
            self.state = ("RawData", kind)
            return
        if k == "slash":
            self.temp = []
            self.state = ("RawEndTagOpen", kind)
        else:
            self.emit_char(0x3C)
            self.reconsume()
            self.state = ("RawData", kind)

    def s_RawEndTagOpen(self, kind):
        c = self.next()
        k = self.cls(c, [self.T_ALPHA_U, self.T_ALPHA_L])
        if k in ("upper", "lower"):
            self.new_tag("EndTag")
            self.reconsume()
            self.state = ("RawEndTagName", kind)
        else:
            self.emit_char(0x3C)
            self.emit_char(0x2F)
            self.reconsume()
            self.state = ("RawData", kind)

    def s_RawEndTagName(self, kind):
        c = self.next()
        k = self.cls(c, [self.T_WS, self.ch("slash", 0x2F), self.ch("gt", 0x3E), self.T_ALPHA_U, self.T_ALPHA_L])
        if k in ("ws", "slash", "gt") and self.appropriate_end_tag():
            if k == "ws":
                self.state = "BeforeAttributeName"
            elif k == "slash":
                self.state = "SelfClosingStartTag"
            else:
                self.state = "Data"
                self.emit_tag()
            return
        if k == "upper":
            self.tag["name"].append(c + 32)
            self.temp.append(c)
            return
        if k == "lower":
            self.tag["name"].append(c)
            self.temp.append(c)
            return
        # anything else
        self.emit_char(0x3C)
        self.emit_char(0x2F)
        self.emit_chars(self.temp)
        self.temp = []
        # (the tag token under construction is abandoned)
        self.new_tag("StartTag")
        self.reconsume()
        self.state = ("RawData", kind)

    # ---- script data escape start (also: double escape start) ---------------------------------------------
    def s_ScriptDataEscapeStart(self, kind):
        c = self.next()
        if kind == "Escaped":
            k = self.cls(c, [self.ch("dash", 0x2D)])
            if k == "dash":
                self.state = "ScriptDataEscapeStartDash"
                self.emit_char(0x2D)
            else:
                self.reconsume()
                self.state = ("RawData", "ScriptData")
            return
        # script data double escape start state
        k = self.cls(c, [self.T_WS, self.ch("slash", 0x2F), self.ch("gt", 0x3E), self.T_ALPHA_U, self.T_ALPHA_L])
        if k in ("ws", "slash", "gt"):
            if self.B(seq_eq(self.temp, [ord(x) for x in "script"]), "temp == script"):
                self.state = ("RawData", ("ScriptDataEscaped", "DoubleEscaped"))
            else:
                self.state = ("RawData", ("ScriptDataEscaped", "Escaped"))
            self.emit_char(c)
        elif k == "upper":
            self.temp.append(c + 32)
            self.emit_char(c)
        elif k == "lower":
            self.temp.append(c)
            self.emit_char(c)
        else:
            self.reconsume()
            self.state = ("RawData", ("ScriptDataEscaped", "Escaped"))

    def s_ScriptDataEscapeStartDash(self, _):
        c = self.next()
        k = self.cls(c, [self.ch("dash", 0x2D)])
        if k == "dash":
            self.state = ("ScriptDataEscapedDashDash", "Escaped")
            self.emit_char(0x2D)
        else:
            self.reconsume()
            self.state = ("RawData", "ScriptData")

    def s_ScriptDataEscapedDash(self, esc):
        c = self.next()
        k = self.cls(c, [self.ch("dash", 0x2D), self.ch("lt", 0x3C), self.T_NUL])
        data = ("RawData", ("ScriptDataEscaped", esc))
        if k == "dash":
            self.state = ("ScriptDataEscapedDashDash", esc)
            self.emit_char(0x2D)
        elif k == "lt":
            self.state = ("RawLessThanSign", ("ScriptDataEscaped", esc))
            if esc == "DoubleEscaped":
                self.emit_char(0x3C)
        elif k == "nul":
            self.state = data
            self.emit_char(0xFFFD)
        elif k == "EOF":
            self.emit_eof()
            return True
        else:
            self.state = data
            self.emit_char(c)

    def s_ScriptDataEscapedDashDash(self, esc):
        c = self.next()
        k = self.cls(c, [self.ch("dash", 0x2D), self.ch("lt", 0x3C), self.ch("gt", 0x3E), self.T_NUL])
        data = ("RawData", ("ScriptDataEscaped", esc))
        if k == "dash":
            self.emit_char(0x2D)
        elif k == "lt":
            self.state = ("RawLessThanSign", ("ScriptDataEscaped", esc))
            if esc == "DoubleEscaped":
                self.emit_char(0x3C)
        elif k == "gt":
            self.state = ("RawData", "ScriptData")
            self.emit_char(0x3E)
        elif k == "nul":
            self.state = data
            self.emit_char(0xFFFD)
        elif k == "EOF":
            self.emit_eof()
            return True
        else:
            self.state = data
            self.emit_char(c)

    def s_ScriptDataDoubleEscapeEnd(self, _):
        c = self.next()
        k = self.cls(c, [self.T_WS, self.ch("slash", 0x2F), self.ch("gt", 0x3E), self.T_ALPHA_U, self.T_ALPHA_L])
        if k in ("ws", "slash", "gt"):
            if self.B(seq_eq(self.temp, [ord(x) for x in "script"]), "temp == script"):
                self.state = ("RawData", ("ScriptDataEscaped", "Escaped"))
            else:
                self.state = ("RawData", ("ScriptDataEscaped", "DoubleEscaped"))
            self.emit_char(c)
        elif k == "upper":
            self.temp.append(c + 32)
            self.emit_char(c)
        elif k == "lower":
            self.temp.append(c)
            self.emit_char(c)
        else:
            self.reconsume()
            self.state = ("RawData", ("ScriptDataEscaped", "DoubleEscaped"))

    # ---- attributes --------------------------------------------------------------------------------------
    def s_BeforeAttributeName(self, _):
        c = self.next()
        k = self.cls(c, [self.T_WS, self.ch("slash", 0x2F), self.ch("gt", 0x3E), self.ch("eq", 0x3D)])
        if k == "ws":
            return
        if k in ("slash", "gt", "EOF"):
            self.reconsume()
            self.state = "AfterAttributeName"
        elif k == "eq":
            self.start_attr()
            self.attr[0].append(c)
            self.state = "AttributeName"
        else:
            self.start_attr()
            self.reconsume()
            self.state = "AttributeName"

    def s_AttributeName(self, _):
        c = self.next()
        k = self.cls(c, [self.T_WS, self.ch("slash", 0x2F), self.ch("gt", 0x3E), self.ch("eq", 0x3D), self.T_ALPHA_U, self.T_NUL])
        if k in ("ws", "slash", "gt", "EOF"):
            self.reconsume()
            self.state = "AfterAttributeName"
        elif k == "eq":
            self.state = "BeforeAttributeValue"
        elif k == "upper":
            self.attr[0].append(c + 32)
        elif k == "nul":
            self.attr[0].append(0xFFFD)
        else:
            self.attr[0].append(c)

    def s_AfterAttributeName(self, _):
        c = self.next()
        k = self.cls(c, [self.T_WS, self.ch("slash", 0x2F), self.ch("eq", 0x3D), self.ch("gt", 0x3E)])
        if k == "ws":
            return
        if k == "slash":
            self.state = "SelfClosingStartTag"
        elif k == "eq":
            self.state = "BeforeAttributeValue"
        elif k == "gt":
            self.state = "Data"
            self.emit_tag()
        elif k == "EOF":
            self.emit_eof()
            return True
        else:
            self.start_attr()
            self.reconsume()
            self.state = "AttributeName"

    def s_BeforeAttributeValue(self, _):
        c = self.next()
        k = self.cls(c, [self.T_WS, self.ch("dq", 0x22), self.ch("sq", 0x27), self.ch("gt", 0x3E)])
        if k == "ws":
            return
        if k == "dq":
            self.state = ("AttributeValue", "DoubleQuoted")
        elif k == "sq":
            self.state = ("AttributeValue", "SingleQuoted")
        elif k == "gt":
            self.state = "Data"
            self.emit_tag()
        else:
            self.reconsume()
            self.state = ("AttributeValue", "Unquoted")

    def s_AttributeValue(self, kind):
        c = self.next()
        if kind == "Unquoted":
            k = self.cls(c, [self.T_WS, self.ch("amp", 0x26), self.ch("gt", 0x3E), self.T_NUL])
            if k == "ws":
                self.state = "BeforeAttributeName"
                return
            if k == "gt":
                self.state = "Data"
                self.emit_tag()
                return
        else:
            q = 0x22 if kind == "DoubleQuoted" else 0x27
            k = self.cls(c, [self.ch("quote", q), self.ch("amp", 0x26), self.T_NUL])
            if k == "quote":
                self.state = "AfterAttributeValueQuoted"
                return
        if k == "amp":
            self.return_state = ("AttributeValue", kind)
            self.state = "CharacterReference"
        elif k == "nul":
            self.attr[1].append(0xFFFD)
        elif k == "EOF":
            self.emit_eof()
            return True
        else:
            self.attr[1].append(c)

    def s_AfterAttributeValueQuoted(self, _):
        c = self.next()
        k = self.cls(c, [self.T_WS, self.ch("slash", 0x2F), self.ch("gt", 0x3E)])
        if k == "ws":
            self.state = "BeforeAttributeName"
        elif k == "slash":
            self.state = "SelfClosingStartTag"
        elif k == "gt":
            self.state = "Data"
            self.emit_tag()
        elif k == "EOF":
            self.emit_eof()
            return True
        else:
            self.reconsume()
            self.state = "BeforeAttributeName"

    def s_SelfClosingStartTag(self, _):
        c = self.next()
        k = self.cls(c, [self.ch("gt", 0x3E)])
        if k == "gt":
            self.tag["self"] = True
            self.state = "Data"
            self.emit_tag()
        elif k == "EOF":
            self.emit_eof()
            return True
        else:
            self.reconsume()
            self.state = "BeforeAttributeName"

    # ---- comments ----------------------------------------------------------------------------------------------
    def s_BogusComment(self, _):
        c = self.next()
        k = self.cls(c, [self.ch("gt", 0x3E), self.T_NUL])
        if k == "gt":
            self.state = "Data"
            self.emit_comment()
        elif k == "EOF":
            self.emit_comment()
            self.emit_eof()
            return True
        elif k == "nul":
            self.comment.append(0xFFFD)
        else:
            self.comment.append(c)

    def lookahead(self, s, ci):
        """do the next len(s) characters match s?  (all-or-nothing; EOF never matches)"""
        if self.i + len(s) > len(self.inp):
            return False
        conds = []
        for j, x in enumerate(s):
            c = self.inp[self.i + j]
            conds.append(eqc(lower(c), ord(x.lower())) if ci else eqc(c, ord(x)))
        return self.B(b_and(*conds), "lookahead " + s)

    def s_MarkupDeclarationOpen(self, _):
        if self.lookahead("--", False):
            self.i += 2
            self.comment = []
            self.state = "CommentStart"
        elif self.lookahead("DOCTYPE", True):
            self.i += 7
            self.state = "Doctype"
        elif self.lookahead("[CDATA[", False):
            self.i += 7
            if self.foreign:
                self.state = "CdataSection"
            else:
                self.comment = [ord(x) for x in "[CDATA["]
                self.state = "BogusComment"
        else:
            self.comment = []
            self.state = "BogusComment"

    def s_CommentStart(self, _):
        c = self.next()
        k = self.cls(c, [self.ch("dash", 0x2D), self.ch("gt", 0x3E)])
        if k == "dash":
            self.state = "CommentStartDash"
        elif k == "gt":
            self.state = "Data"
            self.emit_comment()
        else:
            self.reconsume()
            self.state = "Comment"

    def s_CommentStartDash(self, _):
        c = self.next()
        k = self.cls(c, [self.ch("dash", 0x2D), self.ch("gt", 0x3E)])
        if k == "dash":
            self.state = "CommentEnd"
        elif k == "gt":
            self.state = "Data"
            self.emit_comment()
        elif k == "EOF":
            self.emit_comment()
            self.emit_eof()
            return True
        else:
            self.comment.append(0x2D)
            self.reconsume()
            self.state = "Comment"

    def s_Comment(self, _):
        c = self.next()
        k = self.cls(c, [self.ch("lt", 0x3C), self.ch("dash", 0x2D), self.T_NUL])
        if k == "lt":
            self.comment.append(c)
            self.state = "CommentLessThanSign"
        elif k == "dash":
            self.state = "CommentEndDash"
        elif k == "nul":
            self.comment.append(0xFFFD)
        elif k == "EOF":
            self.emit_comment()
            self.emit_eof()
            return True
        else:
            self.comment.append(c)

    def s_CommentLessThanSign(self, _):
        c = self.next()
        k = self.cls(c, [self.ch("bang", 0x21), self.ch("lt", 0x3C)])
        if k == "bang":
            self.comment.append(c)
            self.state = "CommentLessThanSignBang"
        elif k == "lt":
            self.comment.append(c)
        else:
            self.reconsume()
            self.state = "Comment"

    def s_CommentLessThanSignBang(self, _):
        c = self.next()
        k = self.cls(c, [self.ch("dash", 0x2D)])
        if k == "dash":
            self.state = "CommentLessThanSignBangDash"
        else:
            self.reconsume()
            self.state = "Comment"

    def s_CommentLessThanSignBangDash(self, _):
        c = self.next()
        k = self.cls(c, [self.ch("dash", 0x2D)])
        if k == "dash":
            self.state = "CommentLessThanSignBangDashDash"
        else:
            self.reconsume()
            self.state = "CommentEndDash"

    def s_CommentLessThanSignBangDashDash(self, _):
        self.next()
        # '>' or EOF: fine; anything else: nested-comment parse error; all reconsume in comment end
        self.reconsume()
        self.state = "CommentEnd"

    def s_CommentEndDash(self, _):
        c = self.next()
        k = self.cls(c, [self.ch("dash", 0x2D)])
        if k == "dash":
            self.state = "CommentEnd"
        elif k == "EOF":
            self.emit_comment()
            self.emit_eof()
            return True
        else:
            self.comment.append(0x2D)
            self.reconsume()
            self.state = "Comment"

    def s_CommentEnd(self, _):
        c = self.next()
        k = self.cls(c, [self.ch("gt", 0x3E), self.ch("bang", 0x21), self.ch("dash", 0x2D)])
        if k == "gt":
            self.state = "Data"
            self.emit_comment()
        elif k == "bang":
            self.state = "CommentEndBang"
        elif k == "dash":
            self.comment.append(0x2D)
        elif k == "EOF":
            self.emit_comment()
            self.emit_eof()
            return True
        else:
            self.comment += [0x2D, 0x2D]
            self.reconsume()
            self.state = "Comment"

    def s_CommentEndBang(self, _):
        c = self.next()
        k = self.cls(c, [self.ch("dash", 0x2D), self.ch("gt", 0x3E)])
        if k == "dash":
            self.comment += [0x2D, 0x2D, 0x21]
            self.state = "CommentEndDash"
        elif k == "gt":
            self.state = "Data"
            self.emit_comment()
        elif k == "EOF":
            self.emit_comment()
            self.emit_eof()
            return True
        else:
            self.comment += [0x2D, 0x2D, 0x21]
            self.reconsume()
            self.state = "Comment"

    # ---- DOCTYPE -------------------------------------------------------------------------------------------------------
    def eof_doctype(self):
        self.doctype["fq"] = True
        self.emit_doctype()
        self.emit_eof()
        return True

    def s_Doctype(self, _):
        c = self.next()
        k = self.cls(c, [self.T_WS, self.ch("gt", 0x3E)])
        if k == "ws":
            self.state = "BeforeDoctypeName"
        elif k == "gt":
            self.reconsume()
            self.state = "BeforeDoctypeName"
        elif k == "EOF":
            # create a new DOCTYPE token, force-quirks on, emit
            self.doctype = {"name": None, "pub": None, "sys": None, "fq": False}
            return self.eof_doctype()
        else:
            self.reconsume()
            self.state = "BeforeDoctypeName"

    def s_BeforeDoctypeName(self, _):
        c = self.next()
        k = self.cls(c, [self.T_WS, self.T_ALPHA_U, self.T_NUL, self.ch("gt", 0x3E)])
        if k == "ws":
            return
        if k == "EOF":
            self.doctype = {"name": None, "pub": None, "sys": None, "fq": False}
            return self.eof_doctype()
        self.doctype = {"name": None, "pub": None, "sys": None, "fq": False}
        if k == "upper":
            self.doctype["name"] = [c + 32]
            self.state = "DoctypeName"
        elif k == "nul":
            self.doctype["name"] = [0xFFFD]
            self.state = "DoctypeName"
        elif k == "gt":
            self.doctype["fq"] = True
            self.state = "Data"
            self.emit_doctype()
        else:
            self.doctype["name"] = [c]
            self.state = "DoctypeName"

    def dname_push(self, c):
        if self.doctype["name"] is None:
            self.doctype["name"] = []
        self.doctype["name"].append(c)

    def s_DoctypeName(self, _):
        c = self.next()
        k = self.cls(c, [self.T_WS, self.ch("gt", 0x3E), self.T_ALPHA_U, self.T_NUL])
        if k == "ws":
            self.state = "AfterDoctypeName"
        elif k == "gt":
            self.state = "Data"
            self.emit_doctype()
        elif k == "upper":
            self.dname_push(c + 32)
        elif k == "nul":
            self.dname_push(0xFFFD)
        elif k == "EOF":
            return self.eof_doctype()
        else:
            self.dname_push(c)

    def s_AfterDoctypeName(self, _):
        # look-ahead for PUBLIC / SYSTEM happens on "anything else"
        c = self.next()
        k = self.cls(c, [self.T_WS, self.ch("gt", 0x3E)])
        if k == "ws":
            return
        if k == "gt":
            self.state = "Data"
            self.emit_doctype()
        elif k == "EOF":
            return self.eof_doctype()
        else:
            self.reconsume()
            if self.lookahead("PUBLIC", True):
                self.i += 6
                self.state = ("AfterDoctypeKeyword", "Public")
            elif self.lookahead("SYSTEM", True):
                self.i += 6
                self.state = ("AfterDoctypeKeyword", "System")
            else:
                self.next()
                self.doctype["fq"] = True
                self.reconsume()
                self.state = "BogusDoctype"

    def idkey(self, kind):
        return "pub" if kind == "Public" else "sys"

    def s_AfterDoctypeKeyword(self, kind):
        c = self.next()
        k = self.cls(c, [self.T_WS, self.ch("dq", 0x22), self.ch("sq", 0x27), self.ch("gt", 0x3E)])
        if k == "ws":
            self.state = ("BeforeDoctypeIdentifier", kind)
        elif k == "dq":
            self.doctype[self.idkey(kind)] = []
            self.state = ("DoctypeIdentifierDoubleQuoted", kind)
        elif k == "sq":
            self.doctype[self.idkey(kind)] = []
            self.state = ("DoctypeIdentifierSingleQuoted", kind)
        elif k == "gt":
            self.doctype["fq"] = True
            self.state = "Data"
            self.emit_doctype()
        elif k == "EOF":
            return self.eof_doctype()
        else:
            self.doctype["fq"] = True
            self.reconsume()
            self.state = "BogusDoctype"

    def s_BeforeDoctypeIdentifier(self, kind):
        c = self.next()
        k = self.cls(c, [self.T_WS, self.ch("dq", 0x22), self.ch("sq", 0x27), self.ch("gt", 0x3E)])
        if k == "ws":
            return
        if k == "dq":
            self.doctype[self.idkey(kind)] = []
            self.state = ("DoctypeIdentifierDoubleQuoted", kind)
        elif k == "sq":
            self.doctype[self.idkey(kind)] = []
            self.state = ("DoctypeIdentifierSingleQuoted", kind)
        elif k == "gt":
            self.doctype["fq"] = True
            self.state = "Data"
            self.emit_doctype()
        elif k == "EOF":
            return self.eof_doctype()
        else:
            self.doctype["fq"] = True
            self.reconsume()
            self.state = "BogusDoctype"

    def doctype_id_quoted(self, kind, q):
        c = self.next()
        k = self.cls(c, [self.ch("quote", q), self.T_NUL, self.ch("gt", 0x3E)])
        key = self.idkey(kind)
        if self.doctype[key] is None and k in ("nul", "else"):
            self.doctype[key] = []
        if k == "quote":
            self.state = ("AfterDoctypeIdentifier", kind)
        elif k == "nul":
            self.doctype[key].append(0xFFFD)
        elif k == "gt":
            self.doctype["fq"] = True
            self.state = "Data"
            self.emit_doctype()
        elif k == "EOF":
            return self.eof_doctype()
        else:
            self.doctype[key].append(c)

    def s_DoctypeIdentifierDoubleQuoted(self, kind):
        return self.doctype_id_quoted(kind, 0x22)

    def s_DoctypeIdentifierSingleQuoted(self, kind):
        return self.doctype_id_quoted(kind, 0x27)

    def s_AfterDoctypeIdentifier(self, kind):
        c = self.next()
        if kind == "Public":
            k = self.cls(c, [self.T_WS, self.ch("gt", 0x3E), self.ch("dq", 0x22), self.ch("sq", 0x27)])
            if k == "ws":
                self.state = "BetweenDoctypePublicAndSystemIdentifiers"
                return
            if k == "dq":
                self.doctype["sys"] = []
                self.state = ("DoctypeIdentifierDoubleQuoted", "System")
                return
            if k == "sq":
                self.doctype["sys"] = []
                self.state = ("DoctypeIdentifierSingleQuoted", "System")
                return
        else:
            k = self.cls(c, [self.T_WS, self.ch("gt", 0x3E)])
            if k == "ws":
                return
        if k == "gt":
            self.state = "Data"
            self.emit_doctype()
        elif k == "EOF":
            return self.eof_doctype()
        else:
            if kind == "Public":
                self.doctype["fq"] = True
            # after DOCTYPE system identifier: parse error, but force-quirks is NOT set
            self.reconsume()
            self.state = "BogusDoctype"

    def s_BetweenDoctypePublicAndSystemIdentifiers(self, _):
        c = self.next()
        k = self.cls(c, [self.T_WS, self.ch("gt", 0x3E), self.ch("dq", 0x22), self.ch("sq", 0x27)])
        if k == "ws":
            return
        if k == "gt":
            self.state = "Data"
            self.emit_doctype()
        elif k == "dq":
            self.doctype["sys"] = []
            self.state = ("DoctypeIdentifierDoubleQuoted", "System")
        elif k == "sq":
            self.doctype["sys"] = []
            self.state = ("DoctypeIdentifierSingleQuoted", "System")
        elif k == "EOF":
            return self.eof_doctype()
        else:
            self.doctype["fq"] = True
            self.reconsume()
            self.state = "BogusDoctype"

    def s_BogusDoctype(self, _):
        c = self.next()
        k = self.cls(c, [self.ch("gt", 0x3E)])
        if k == "gt":
            self.state = "Data"
            self.emit_doctype()
        elif k == "EOF":
            self.emit_doctype()
            self.emit_eof()
            return True

    # ---- CDATA ----------------------------------------------------------------------------------------------------------------
    def s_CdataSection(self, _):
        c = self.next()
        k = self.cls(c, [self.ch("rb", 0x5D)])
        if k == "rb":
            self.state = "CdataSectionBracket"
        elif k == "EOF":
            self.emit_eof()
            return True
        else:
            self.emit_char(c)

    def s_CdataSectionBracket(self, _):
        c = self.next()
        k = self.cls(c, [self.ch("rb", 0x5D)])
        if k == "rb":
            self.state = "CdataSectionEnd"
        else:
            self.emit_char(0x5D)
            self.reconsume()
            self.state = "CdataSection"

    def s_CdataSectionEnd(self, _):
        c = self.next()
        k = self.cls(c, [self.ch("rb", 0x5D), self.ch("gt", 0x3E)])
        if k == "rb":
            self.emit_char(0x5D)
        elif k == "gt":
            self.state = "Data"
        else:
            self.emit_char(0x5D)
            self.emit_char(0x5D)
            self.reconsume()
            self.state = "CdataSection"

    # ---- character references (13.2.5.72 - 13.2.5.80) ----------------------------------------------------------------------------
    def in_attr(self):
        return isinstance(self.return_state, tuple) and self.return_state[0] == "AttributeValue"

    def flush(self, cps):
        if self.in_attr():
            self.attr[1].extend(cps)
        else:
            self.emit_chars(cps)

    def s_CharacterReference(self, _):
        self.temp = [0x26]
        c = self.next()
        k = self.cls(c, [("alnum", lambda c: b_or(in_rng(c, 48, 57), in_rng(c, 65, 90), in_rng(c, 97, 122))), self.ch("hash", 0x23)])
        if k == "alnum":
            self.reconsume()
            self.state = "NamedCharacterReference"
        elif k == "hash":
            self.temp.append(c)
            self.state = "NumericCharacterReference"
        else:
            self.flush(self.temp)
            self.temp = []
            self.reconsume()
            self.state = self.return_state

    def s_NamedCharacterReference(self, _):
        """consume the maximum number of characters possible, where the consumed characters are one of the
        identifiers in the named character references table"""
        best = None
        # candidates by increasing length; the table is finite, names <= 33 chars
        rest = self.inp[self.i:]
        cand_prefix = True
        L = 1
        matched = None
        # walk: at each length, fork over which table names of that length the input can equal
        prefix_alive = True
        while prefix_alive and L <= len(rest) and L <= self.maxlen():
            seg = rest[:L]
            names = self.names_with_len(L, seg)
            hit = None
            opts, neg = [], []
            for nm in names:
                cond = seq_eq(seg, [ord(x) for x in nm])
                if cond is False:
                    continue
                if cond is True:
                    hit = nm
                    opts = []
                    break
                opts.append((nm, b_and(cond, *[])))
                neg.append(b_not(cond))
            if hit is None and opts:
                opts.append(("<none>", b_and(*neg)))
                lab = self.m.choose(opts, "ref entity len %d" % L)
                hit = None if lab == "<none>" else lab
            if hit is not None:
                matched = hit
            # can any longer name still match? (is seg a proper prefix of some name)
            prefix_alive = self.prefix_possible(seg)
            L += 1
        if matched is not None:
            n = len(matched)
            self.i += n
            self.temp.extend(ord(x) for x in matched)
            last_semicolon = matched.endswith(";")
            if self.in_attr() and not last_semicolon:
                nxt = self.inp[self.i] if self.i < len(self.inp) else EOF
                if nxt is not EOF and self.B(b_or(eqc(nxt, 0x3D), in_rng(nxt, 48, 57), in_rng(nxt, 65, 90), in_rng(nxt, 97, 122)), "legacy attr rule"):
                    self.flush(self.temp)
                    self.temp = []
                    self.state = self.return_state
                    return
            cp = self.ent[matched]
            self.temp = [cp[0]] + ([cp[1]] if cp[1] else [])
            self.flush(self.temp)
            self.temp = []
            self.state = self.return_state
        else:
            self.flush(self.temp)
            self.temp = []
            self.state = "AmbiguousAmpersand"

    _idx = None

    def build_index(self):
        if Ref._idx is None or Ref._idx[0] is not self.ent:
            by_len, prefixes, mx = {}, set(), 0
            for nm in self.ent:
                by_len.setdefault(len(nm), []).append(nm)
                mx = max(mx, len(nm))
                for j in range(1, len(nm)):
                    prefixes.add(nm[:j])
            Ref._idx = (self.ent, by_len, prefixes, mx)
        return Ref._idx

    def maxlen(self):
        return self.build_index()[3]

    def names_with_len(self, L, seg):
        by_len = self.build_index()[1]
        out = []
        for nm in by_len.get(L, ()):
            if all((not isinstance(c, int)) or c == ord(x) for c, x in zip(seg, nm)):
                out.append(nm)
        return out

    def prefix_possible(self, seg):
        """is seg (possibly symbolic) a proper prefix of some table name?  forks."""
        prefixes = self.build_index()[2]
        L = len(seg)
        cands = [p for p in prefixes if len(p) == L and all((not isinstance(c, int)) or c == ord(x) for c, x in zip(seg, p))]
        if not cands:
            return False
        conds = [seq_eq(seg, [ord(x) for x in p]) for p in cands]
        if any(c is True for c in conds):
            return True
        return self.B(b_or(*conds), "entity prefix alive len %d" % L)

    def s_AmbiguousAmpersand(self, _):
        c = self.next()
        k = self.cls(c, [("alnum", lambda c: b_or(in_rng(c, 48, 57), in_rng(c, 65, 90), in_rng(c, 97, 122)))])
        if k == "alnum":
            self.flush([c])
        else:
            # ';' is a parse error only; reconsume in the return state
            self.reconsume()
            self.state = self.return_state

    def s_NumericCharacterReference(self, _):
        self.code = 0
        c = self.next()
        k = self.cls(c, [("x", lambda c: in_set(c, (0x78, 0x58)))])
        if k == "x":
            self.temp.append(c)
            self.state = "HexadecimalCharacterReferenceStart"
        else:
            self.reconsume()
            self.state = "DecimalCharacterReferenceStart"

    def s_HexadecimalCharacterReferenceStart(self, _):
        c = self.next()
        k = self.cls(c, [("hex", lambda c: b_or(in_rng(c, 48, 57), in_rng(c, 65, 70), in_rng(c, 97, 102)))])
        if k == "hex":
            self.reconsume()
            self.state = "HexadecimalCharacterReference"
        else:
            self.flush(self.temp)
            self.temp = []
            self.reconsume()
            self.state = self.return_state

    def s_DecimalCharacterReferenceStart(self, _):
        c = self.next()
        k = self.cls(c, [("dig", lambda c: in_rng(c, 48, 57))])
        if k == "dig":
            self.reconsume()
            self.state = "DecimalCharacterReference"
        else:
            self.flush(self.temp)
            self.temp = []
            self.reconsume()
            self.state = self.return_state

    def acc(self, base, d):
        """character reference code = code * base + digit, exact: kept in 64 bits and saturated at 0x110000
        (every value above 0x10FFFF is treated alike by the end state), so it never wraps"""
        code = self.code
        if isinstance(code, int) and isinstance(d, int):
            v = code * base + d
            return v if v <= 0x10FFFF else 0x110000
        code = z3.BitVecVal(code, 64) if isinstance(code, int) else code
        d = z3.ZeroExt(64 - d.size(), d) if is_sym(d) else z3.BitVecVal(d, 64)
        v = code * base + d
        return z3.If(z3.UGT(v, 0x10FFFF), z3.BitVecVal(0x110000, 64), v)

    def s_HexadecimalCharacterReference(self, _):
        c = self.next()
        k = self.cls(c, [("dig", lambda c: in_rng(c, 48, 57)), ("up", lambda c: in_rng(c, 65, 70)), ("lo", lambda c: in_rng(c, 97, 102)),
                         self.ch("semi", 0x3B)])
        if k == "dig":
            self.code = self.acc(16, c - 0x30)
        elif k == "up":
            self.code = self.acc(16, c - 0x37)
        elif k == "lo":
            self.code = self.acc(16, c - 0x57)
        elif k == "semi":
            self.state = "NumericCharacterReferenceEnd"
        else:
            self.reconsume()
            self.state = "NumericCharacterReferenceEnd"

    def s_DecimalCharacterReference(self, _):
        c = self.next()
        k = self.cls(c, [("dig", lambda c: in_rng(c, 48, 57)), self.ch("semi", 0x3B)])
        if k == "dig":
            self.code = self.acc(10, c - 0x30)
        elif k == "semi":
            self.state = "NumericCharacterReferenceEnd"
        else:
            self.reconsume()
            self.state = "NumericCharacterReferenceEnd"

    def s_NumericCharacterReferenceEnd(self, _):
        code = self.code
        if isinstance(code, int):
            cp = numeric_value(code)
        else:
            # fork over the special ranges so that the result is a bit-vector term
            kinds = [("zero", code == 0), ("big", z3.UGT(code, 0x10FFFF)), ("sur", z3.And(z3.UGE(code, 0xD800), z3.ULE(code, 0xDFFF)))]
            kinds += [("c1_%x" % k, code == k) for k in C1_REPLACEMENTS]
            opts, neg = [], []
            for lab, cnd in kinds:
                opts.append((lab, z3.And(cnd, *neg) if neg else cnd))
                neg.append(z3.Not(cnd))
            opts.append(("plain", z3.And(*neg)))
            lab = self.m.choose(opts, "numeric charref class")
            if lab in ("zero", "big", "sur"):
                cp = 0xFFFD
            elif lab.startswith("c1_"):
                cp = C1_REPLACEMENTS[int(lab[3:], 16)]
            else:
                cp = z3.Extract(31, 0, code)
        self.temp = [cp]
        self.flush(self.temp)
        self.temp = []
        self.state = self.return_state


def numeric_value(code):
    if code == 0 or code > 0x10FFFF or 0xD800 <= code <= 0xDFFF:
        return 0xFFFD
    return C1_REPLACEMENTS.get(code, code)
