"""HTML tokenizer harness for engine M: builds a Tokenizer by interpreting Tokenizer::new,
feeds symbolic input (arbitrary chunking) through the interpreted feed()/end(), and
collects, per explored path, the path condition and everything the sink observed."""
import os, re, z3, time
from . import models as MD
from .models import Tendril, BufQ, Atom, VecM, Opaque, Guard, model, some, none, deref
from .interp import (Struct, Enum, Tup, Ptr, Str, UNIT, Panic, PathEnd, Machine, is_sym, copy_val, show_chars)
from .mirparse import Unsupported
from .program import Program


# ---------------------------------------------------------------- the sink model
class SinkCfg:
    """what the modelled TokenSink answers: a concrete policy per run"""

    def __init__(self, on_start="Continue", foreign=False):
        self.on_start = on_start      # Continue | Plaintext | Script | ('RawData', kind path)
        self.foreign = foreign


def tok_snapshot(v):
    """canonical Python form of a tokenizer Token value"""
    if not isinstance(v, Enum):
        return ("?", repr(v))
    k = v.variant
    if k == "CharacterTokens":
        return ("Chars", tuple(deref(v.f[0]).ch))
    if k == "NullCharacterToken":
        return ("Null",)
    if k == "EOFToken":
        return ("EOF",)
    if k == "CommentToken":
        return ("Comment", tuple(deref(v.f[0]).ch))
    if k == "ParseError":
        return ("Error", err_snapshot(v.f[0]))
    if k == "DoctypeToken":
        d = v.f[0]
        def opt(o):
            return tuple(deref(o.f[0]).ch) if o.variant == "Some" else None
        return ("Doctype", opt(d.f[0]), opt(d.f[1]), opt(d.f[2]), d.f[3])
    if k == "TagToken":
        t = v.f[0]
        kind, name, selfc, attrs, dup = t.f
        al = []
        for a in attrs.v:
            qn, val = a.f
            al.append((tuple(qn.f[2].ch), tuple(val.ch)))
        return ("Tag", kind.variant, tuple(name.ch), selfc, tuple(al), dup)
    # xml5ever tokens
    if k == "Characters":
        return ("Chars", tuple(deref(v.f[0]).ch))
    if k == "NullCharacter":
        return ("Null",)
    if k == "EndOfFile":
        return ("EOF",)
    if k == "Comment":
        return ("Comment", tuple(deref(v.f[0]).ch))
    if k == "ProcessingInstruction":
        pi = v.f[0]
        return ("PI", tuple(deref(pi.f[0]).ch), tuple(deref(pi.f[1]).ch))
    if k == "Doctype":
        d = v.f[0]
        def opt(o):
            return tuple(deref(o.f[0]).ch) if o.variant == "Some" else None
        return ("Doctype", opt(d.f[0]), opt(d.f[1]), opt(d.f[2]), False)
    if k == "Tag":
        t = v.f[0]
        kind, name, attrs = t.f
        def qn(q):
            pre = q.f[0]
            return (tuple(pre.f[0].ch) if isinstance(pre, Enum) and pre.variant == "Some" else None, tuple(q.f[2].ch))
        al = []
        for a in attrs.v:
            al.append((qn(a.f[0]), tuple(a.f[1].ch)))
        return ("XTag", kind.variant, qn(name), tuple(al))
    return ("?", repr(v))


def err_snapshot(c):
    if isinstance(c, Enum) and c.ty == "Cow":
        x = c.f[0]
        if isinstance(x, Str):
            return "".join(chr(ch) for ch in x.ch)
        return "<formatted>"
    return repr(c)


def _real_sink(m, a, name):
    """the tokenizer's sink is a tree builder interpreted from MIR (composition), not the recording model"""
    s_ = deref(a[0])
    if isinstance(s_, Struct) and s_.ty in ("TreeBuilder", "XmlTreeBuilder"):
        return m.prog.by_key.get("<%s as TokenSink>::%s" % (s_.ty, name))
    return None


@model("<Sink as TokenSink>::process_token")
def sink_process_token(m, a, c):
    f = _real_sink(m, a, "process_token")
    if f is not None:
        m.notes["tb_tokens"] = m.notes.get("tb_tokens", 0) + 1
        return m.run_fn(f, a)
    tok = a[1]
    xml = len(a) < 3
    line = a[2] if not xml else 0
    snap = tok_snapshot(tok)
    m.notes.setdefault("tokens", []).append((snap, line))
    q = m.notes.get("q")
    if q is not None:
        # characters of the fed input that are no longer waiting in any input queue
        left = sum(len(b.ch) for b in q.bufs) + sum(len(b.ch) for aq in m.notes.get("aux_queues", []) for b in aq.bufs)
        m.notes.setdefault("positions", []).append(m.notes.get("fed", 0) - left)
    else:
        m.notes.setdefault("positions", []).append(None)
    if m.notes.get("seen_eof"):
        m.notes["token_after_eof"] = True
    if snap[0] == "EOF":
        m.notes["seen_eof"] = True
    cfg = m.notes["sinkcfg"]
    if xml:
        return m.prog.make_adt(m, "ProcessResult::Continue", [], None)
    mk = lambda v, f=(): m.prog.make_adt(m, "TokenSinkResult::" + v, list(f), None)
    if snap[0] == "Tag" and snap[1] == "StartTag":
        ans = cfg.on_start
        if ans == "Plaintext":
            return mk("Plaintext")
        if ans == "Script":
            return mk("Script", [Opaque("handle")])
        if isinstance(ans, tuple) and ans[0] == "RawData":
            return mk("RawData", [sub_value(m.prog, m, ans[1])])
    return mk("Continue")


@model("<Sink as TokenSink>::adjusted_current_node_present_but_not_in_html_namespace")
def sink_foreign(m, a, c):
    f = _real_sink(m, a, "adjusted_current_node_present_but_not_in_html_namespace")
    if f is not None:
        return m.run_fn(f, a)
    return m.notes["sinkcfg"].foreign


@model("<Sink as TokenSink>::end")
def sink_end(m, a, c):
    f = _real_sink(m, a, "end")
    if f is not None:
        return m.run_fn(f, a)
    return UNIT


@model("Tokenizer::dump_profile", "XmlTokenizer::dump_profile")
def dump_profile(m, a, c):
    # prints the profiling table through println!; output formatting is not the subject
    return UNIT


@model("Tokenizer::is_supported_simd_feature_detected")
def simd_detected(m, a, c):
    return m.notes.get("simd", True)


@model("Tokenizer::data_state_sse2_fast_path")
def sse2_fast_path(m, a, c):
    """Summary of the SSE2 stride loop by the contract engine K proves for the real function:
    i = index of the first byte in {<,&,CR,NUL} if it lies in the whole-stride prefix, else
    16*floor(n/16); n_newlines = number of LF bytes before i."""
    from .models import byte_view, b_or, T
    bs = byte_view(T(a[1]).ch)
    lim = (len(bs) // 16) * 16
    i, nl = 0, 0
    while i < lim:
        b = bs[i]
        if m.branch_bool(b_or(*[(b == x) for x in (0x3C, 0x26, 0x0D, 0x00)]), "sse2 stop byte"):
            break
        if m.branch_bool(b == 0x0A, "sse2 newline"):
            nl += 1
        i += 1
    return Tup([i, nl])


# ---------------------------------------------------------------- program / config
class Cfg:
    def __init__(self, **kw):
        self.state = "Data"            # path of the start state, e.g. "states::State::Data" or tuple for nested
        self.exact_errors = False
        self.discard_bom = True
        self.profile = False
        self.last_start_tag = None     # list of chars or None
        self.sink = SinkCfg()
        self.simd = True
        self.chunks = None             # list of lists of char values; None = one chunk
        self.end = True
        self.dialect = "html"
        self.__dict__.update(kw)


def state_value(prog, m, st):
    """st: 'Data' | ('RawData', 'Rcdata') | ('RawData', ('ScriptDataEscaped','Escaped')) ..."""
    if isinstance(st, str):
        return prog.make_adt(m, "states::State::" + st, [], None)
    head, arg = st
    return prog.make_adt(m, "states::State::" + head, [sub_value(prog, m, arg)], None)


SUB_ENUM = {"Rcdata": "RawKind", "Rawtext": "RawKind", "ScriptData": "RawKind", "ScriptDataEscaped": "RawKind",
            "Escaped": "ScriptEscapeKind", "DoubleEscaped": "ScriptEscapeKind",
            "Public": "DoctypeIdKind", "System": "DoctypeIdKind",
            "Unquoted": "AttrValueKind", "SingleQuoted": "AttrValueKind", "DoubleQuoted": "AttrValueKind"}


def xml_state_value(prog, m, st):
    if isinstance(st, str):
        return prog.make_adt(m, "states::XmlState::" + st, [], None)
    head, arg = st
    en = "AttrValueKind" if arg in AVK else "DoctypeKind"
    return prog.make_adt(m, "states::XmlState::" + head, [prog.make_adt(m, "states::%s::%s" % (en, arg), [], None)], None)


def sub_value(prog, m, arg):
    if isinstance(arg, str):
        return prog.make_adt(m, "states::%s::%s" % (SUB_ENUM[arg], arg), [], None)
    head, a2 = arg
    return prog.make_adt(m, "states::%s::%s" % (SUB_ENUM[head], head), [sub_value(prog, m, a2)], None)


def load_entities(prog, path):
    """parse the generated named_entities.rs (phf map entries) of the tree under analysis"""
    txt = open(path, errors="replace").read()
    ent = {}
    for m_ in re.finditer(r'\("((?:[^"\\]|\\.)*)", \((\d+), (\d+)\)\)', txt):
        ent[m_.group(1)] = (int(m_.group(2)), int(m_.group(3)))
    prog.entities = ent
    gen = os.path.join(os.path.dirname(path), "generated.rs")
    if os.path.exists(gen):
        from . import models as _MD
        _MD.load_static_atoms(gen)
    by = {}
    for k, v in ent.items():
        by.setdefault(len(k), []).append((k, v))
    prog.entities_by_len = by
    return ent


class PathResult:
    __slots__ = ("pc", "tokens", "positions", "outcome", "final_state", "decisions", "feed_results", "queue_left", "line", "notes", "steps")


def run_one(prog, cfg, decisions, chars):
    """one path; returns (PathResult, pending decision lists, machine)"""
    m = Machine(prog, decisions)
    m.notes["sinkcfg"] = cfg.sink
    m.notes["simd"] = cfg.simd
    for c in cfg.constraints if hasattr(cfg, "constraints") else []:
        m.assume(c)
    r = PathResult()
    r.feed_results = []
    try:
        xml = getattr(cfg, "dialect", "html") == "xml"
        T = "XmlTokenizer" if xml else "Tokenizer"
        if xml:
            init = some(xml_state_value(prog, m, cfg.state)) if cfg.state is not None else none()
            opts = Struct("XmlTokenizerOpts", [cfg.exact_errors, cfg.discard_bom, cfg.profile, init])
        else:
            init = some(state_value(prog, m, cfg.state)) if cfg.state is not None else none()
            last = some(Str(cfg.last_start_tag)) if cfg.last_start_tag is not None else none()
            opts = Struct("TokenizerOpts", [cfg.exact_errors, cfg.discard_bom, cfg.profile, init, last])
        tk = m.call(T + "::new", [Struct("Sink", []), opts])
        tkp = Ptr([tk], 0)
        q = BufQ()
        m.notes["q"] = q
        qp = Ptr([q], 0)
        chunks = cfg.chunks if cfg.chunks is not None else [chars]
        for ch in chunks:
            if ch:
                q.bufs.append(Tendril(ch))
                m.notes["fed"] = m.notes.get("fed", 0) + len(ch)
            res = m.call(T + "::feed", [tkp, qp])
            r.feed_results.append(res.variant if isinstance(res, Enum) else repr(res))
            # a Script result suspends the tokenizer; the harness resumes at once (C03 script half is separate)
            guard = 0
            while isinstance(res, Enum) and res.variant in ("Script", "EncodingIndicator") and guard < 8:
                hook = getattr(cfg, "on_script", None)
                if hook:
                    hook(m, q)
                res = m.call(T + "::feed", [tkp, qp])
                r.feed_results.append(res.variant if isinstance(res, Enum) else repr(res))
                guard += 1
            if isinstance(res, Enum) and res.variant == "Done" and q.bufs:
                r.queue_left = True
        if cfg.end:
            m.call(T + "::end", [tkp])
        r.outcome = "ok"
        r.final_state = repr(tk.f[2])
        r.line = tk.f[-1]
        if not hasattr(r, "queue_left") or getattr(r, "queue_left", None) is None:
            r.queue_left = False
    except Panic as e:
        r.outcome = "panic: " + e.msg
        r.final_state = None
        r.line = None
        r.queue_left = False
    except PathEnd:
        r.outcome = "infeasible"
        r.final_state = None
        r.line = None
        r.queue_left = False
    r.pc = list(m.pc)
    r.tokens = list(m.notes.get("tokens", []))
    r.positions = list(m.notes.get("positions", []))
    r.decisions = list(m.taken)
    r.notes = {k: v for k, v in m.notes.items() if k in ("token_after_eof", "seen_eof")}
    r.steps = m.steps
    return r, m.pending, m


def explore(prog, cfg, chars, max_paths=20000, stats=None):
    """all feasible paths for this configuration"""
    work = [[]]
    out = []
    nq = 0
    while work:
        d = work.pop()
        r, pend, m = run_one(prog, cfg, d, chars)
        nq += m.nqueries
        work.extend(pend)
        if r.outcome != "infeasible":
            out.append(r)
        if len(out) > max_paths:
            raise Unsupported("path budget exceeded (%d)" % max_paths)
    if stats is not None:
        stats["queries"] = stats.get("queries", 0) + nq
        stats["paths"] = stats.get("paths", 0) + len(out)
    return out


# ---------------------------------------------------------------- symbolic input characters
def sym_chars(k, classes=None, prefix="c"):
    """k symbolic characters; classes[i] in 1..4 fixes the UTF-8 length class of character i"""
    cs, cons = [], []
    for i in range(k):
        name = "%s%d" % (prefix, i)
        v = z3.BitVec(name, 32)
        cl = (classes[i] if classes else 1)
        MD.CHAR_CLASS[name] = cl
        if cl == 1:
            cons.append(z3.ULE(v, 0x7F))
        elif cl == 2:
            cons.append(z3.And(z3.UGE(v, 0x80), z3.ULE(v, 0x7FF)))
        elif cl == 3:
            cons.append(z3.And(z3.UGE(v, 0x800), z3.ULE(v, 0xFFFF), z3.Or(z3.ULT(v, 0xD800), z3.UGT(v, 0xDFFF))))
        else:
            cons.append(z3.And(z3.UGE(v, 0x10000), z3.ULE(v, 0x10FFFF)))
        cs.append(v)
    return cs, cons


# ---------------------------------------------------------------- normalisation of observations
def normalize(tokens, drop_errors=True, keep_lines=False):
    """adjacent character tokens concatenated, NUL kept distinct, ParseErrors optionally dropped"""
    out = []
    for snap, line in tokens:
        if snap[0] == "Error":
            if drop_errors:
                continue
        if snap[0] == "Chars":
            if not snap[1]:
                continue
            if out and out[-1][0] == "Chars":
                # a merged run carries the line of its last piece (= line when the run was complete)
                out[-1] = ("Chars", out[-1][1] + snap[1]) + ((line,) if keep_lines else ())
                continue
            out.append(("Chars", snap[1]) + ((line,) if keep_lines else ()))
            continue
        out.append(snap + ((line,) if keep_lines else ()))
    return out


def obs_equal(a, b):
    """-> Python bool or z3 Bool: are two normalised observations equal?"""
    from .models import seq_eq, b_and
    if len(a) != len(b):
        return False
    conds = []
    for x, y in zip(a, b):
        e = item_eq(x, y)
        if e is False:
            return False
        if e is not True:
            conds.append(e)
    return b_and(*conds) if conds else True


def item_eq(x, y):
    from .models import seq_eq, b_and
    if isinstance(x, tuple) and isinstance(y, tuple):
        if len(x) != len(y):
            return False
        if x and isinstance(x[0], str) and isinstance(y[0], str) and x[0] != y[0] and x[0] in ("Chars", "Null", "EOF", "Comment", "Error", "Doctype", "Tag"):
            return False
        # a tuple of characters?
        if all(isinstance(e, int) or is_sym(e) for e in x) and all(isinstance(e, int) or is_sym(e) for e in y) and x and not isinstance(x[0], bool):
            return seq_eq(x, y)
        return b_and(*[item_eq(p, q) for p, q in zip(x, y)]) if x else True
    if x is None or y is None:
        return x is None and y is None
    if isinstance(x, (bool, str)) or isinstance(y, (bool, str)):
        if is_sym(x) or is_sym(y):
            from .interp import to_bool
            return to_bool(x) == to_bool(y)
        return x == y
    if isinstance(x, int) and isinstance(y, int):
        return x == y
    if is_sym(x) or is_sym(y):
        from .interp import to_bv
        w = x.size() if is_sym(x) else y.size()
        return to_bv(x, w) == to_bv(y, w)
    return x == y


def show_obs(obs, model=None):
    def ev(c):
        if isinstance(c, int):
            return c
        if model is not None:
            v = model.eval(c, model_completion=True)
            return v.as_long() if z3.is_bv_value(v) else str(v)
        return str(z3.simplify(c))
    def conv(x):
        if isinstance(x, tuple):
            if x and all(isinstance(e, int) or is_sym(e) for e in x) and not isinstance(x[0], bool):
                vals = [ev(e) for e in x]
                if all(isinstance(v, int) for v in vals):
                    return "".join(chr(v) if v < 0x110000 else "?" for v in vals)
                return vals
            return [conv(e) for e in x]
        if is_sym(x):
            return ev(x)
        return x
    return [conv(o) for o in obs]


# ---------------------------------------------------------------- canonical text form (shared with /verif/replay)
def state_spec(st):
    if isinstance(st, str):
        return st
    head, arg = st
    return head + ":" + state_spec(arg)


RAW_KINDS = ["Rcdata", "Rawtext", "ScriptData", ("ScriptDataEscaped", "Escaped"), ("ScriptDataEscaped", "DoubleEscaped")]
ESC = ["Escaped", "DoubleEscaped"]
IDK = ["Public", "System"]
AVK = ["Unquoted", "SingleQuoted", "DoubleQuoted"]


def all_xml_states(prog):
    vs = None
    for c in prog.enums.get("XmlState", []):
        vs = c[0]
    if vs is None:
        raise Unsupported("XmlState not found")
    src = open(os.path.join(prog.src_root, prog.crate_dir, "src/tokenizer/states.rs")).read()
    out = []
    for v in vs:
        m_ = re.search(r"\b%s\((\w+)\)" % v, src)
        if not m_:
            out.append(v)
        else:
            out.extend((v, k) for k in {"AttrValueKind": AVK, "DoctypeKind": IDK}[m_.group(1)])
    return out


def all_states(prog):
    """every value of states::State, from the enum declaration in the current source"""
    vs = None
    for c in prog.enums.get("State", []):
        if "tokenizer/states.rs" in c[1]:
            vs = c[0]
    if vs is None:
        raise Unsupported("states::State not found in sources")
    src = open(os.path.join(prog.src_root, prog.crate_dir, "src/tokenizer/states.rs")).read()
    out = []
    for v in vs:
        m_ = re.search(r"\b%s\((\w+)\)" % v, src)
        if not m_:
            out.append(v)
        else:
            sub = {"RawKind": RAW_KINDS, "ScriptEscapeKind": ESC, "DoctypeIdKind": IDK, "AttrValueKind": AVK}[m_.group(1)]
            out.extend((v, k) for k in sub)
    return out


def hexs(chs):
    return "".join(chr(c) for c in chs).encode("utf-8", "surrogatepass").hex()


def cps(chs):
    return ",".join("%x" % c for c in chs)


def raw_text(tokens):
    """tokens exactly as the sink saw them (concrete), one line each, same format as /verif/replay"""
    out = []
    for snap, line in tokens:
        k = snap[0]
        if k == "Chars":
            s = "Chars " + cps(snap[1])
        elif k == "Null":
            s = "Null"
        elif k == "EOF":
            s = "EOF"
        elif k == "Comment":
            s = "Comment " + cps(snap[1])
        elif k == "Error":
            s = "Error"
        elif k == "Doctype":
            o = lambda x: "-" if x is None else "[%s]" % cps(x)
            s = "Doctype %s %s %s %s" % (o(snap[1]), o(snap[2]), o(snap[3]), "true" if snap[4] else "false")
        elif k == "PI":
            s = "PI [%s] [%s]" % (cps(snap[1]), cps(snap[2]))
        elif k == "XTag":
            q = lambda x: ("%s:" % cps(x[0]) if x[0] is not None else "") + cps(x[1])
            s = "XTag %s [%s] [%s]" % (snap[1], q(snap[2]), " ".join("%s=%s" % (q(n), cps(v)) for n, v in snap[3]))
        elif k == "Tag":
            s = "Tag %s [%s] %s [%s] %s" % (snap[1], cps(snap[2]), "true" if snap[3] else "false",
                                           " ".join("%s=%s" % (cps(n), cps(v)) for n, v in snap[4]), "true" if snap[5] else "false")
        else:
            s = repr(snap)
        out.append("%s @%d" % (s, line))
    return out


def concretize_tokens(tokens, model):
    def ev(c):
        if isinstance(c, bool) or isinstance(c, int):
            return c
        v = model.eval(c, model_completion=True)
        if z3.is_bv_value(v):
            return v.as_long()
        return z3.is_true(v)
    def conv(x):
        if isinstance(x, tuple):
            return tuple(conv(e) for e in x)
        if is_sym(x):
            return ev(x)
        return x
    return [(conv(s), conv(l)) for s, l in tokens]


def case_text(cfg, chunks, mode=None, inject=None):
    mode = mode or getattr(cfg, "dialect", "html")
    on = cfg.sink.on_start
    if isinstance(on, tuple):
        on = "RawData:" + state_spec(on[1])
    lines = ["mode " + mode, "state " + state_spec(cfg.state), "exact_errors %d" % cfg.exact_errors,
             "discard_bom %d" % cfg.discard_bom, "profile %d" % cfg.profile,
             "last_start_tag " + (hexs(cfg.last_start_tag) if getattr(cfg, "last_start_tag", None) is not None else "-"),
             "on_start " + on, "foreign %d" % cfg.sink.foreign]
    for ch in chunks:
        lines.append("chunk " + hexs(ch))
    if inject is not None:
        lines.append("inject " + hexs(inject))
    lines.append("end %d" % cfg.end)
    return "\n".join(lines) + "\n"


def native_run(exe, case):
    import subprocess
    p = subprocess.run([exe], input=case.encode(), stdout=subprocess.PIPE, stderr=subprocess.PIPE, timeout=30)
    out = p.stdout.decode(errors="replace").splitlines()
    if p.returncode != 0:
        out.append("PANIC " + " | ".join(l for l in p.stderr.decode(errors="replace").splitlines() if "panicked" in l or "already" in l)[:300])
    return out
