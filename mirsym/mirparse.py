"""Parser for rustc's textual MIR (-Zunpretty=mir).  Only what engine M needs:
function headers, local declarations, basic blocks with statements and terminators,
promoted constants.  Anything it cannot parse is kept as a raw string and raises
Unsupported when (and only when) execution reaches it."""
import re


class Unsupported(Exception):
    pass


# ---------------------------------------------------------------- text utilities
def split_top(s, sep=","):
    """split on sep at nesting depth 0 of () [] {} <> (angle brackets only when balanced-looking) and outside quotes"""
    out, depth, cur, i, n = [], 0, [], 0, len(s)
    inq = None
    while i < n:
        ch = s[i]
        if inq:
            cur.append(ch)
            if ch == "\\" and i + 1 < n:
                cur.append(s[i + 1])
                i += 2
                continue
            if ch == inq:
                inq = None
            i += 1
            continue
        if ch == '"':
            inq = '"'
            cur.append(ch)
        elif ch == "'" :
            # char literal or lifetime: treat as char literal only if it closes within 12 chars
            m = re.match(r"'(\\.[^']{0,8}|[^'\\])'", s[i:])
            if m:
                cur.append(m.group(0))
                i += len(m.group(0))
                continue
            cur.append(ch)
        elif ch in "([{":
            depth += 1
            cur.append(ch)
        elif ch in ")]}":
            depth -= 1
            cur.append(ch)
        elif ch == "<":
            depth += 1
            cur.append(ch)
        elif ch == ">":
            if i > 0 and s[i - 1] in "-=":  # -> or =>
                cur.append(ch)
            else:
                depth -= 1
                cur.append(ch)
        elif ch == sep and depth == 0:
            out.append("".join(cur).strip())
            cur = []
        else:
            cur.append(ch)
        i += 1
    last = "".join(cur).strip()
    if last:
        out.append(last)
    return out


def match_paren(s, i):
    """s[i] is an opener; return index of its closer (quotes respected)"""
    pairs = {"(": ")", "[": "]", "{": "}"}
    op = s[i]
    cl = pairs[op]
    depth = 0
    inq = None
    j = i
    n = len(s)
    while j < n:
        ch = s[j]
        if inq:
            if ch == "\\":
                j += 2
                continue
            if ch == inq:
                inq = None
        elif ch == '"':
            inq = '"'
        elif ch == "'":
            m = re.match(r"'(\\.[^']{0,8}|[^'\\])'", s[j:])
            if m:
                j += len(m.group(0))
                continue
        elif ch in "([{":
            depth += 1
        elif ch in ")]}":
            depth -= 1
            if depth == 0:
                return j
        j += 1
    raise ValueError("unbalanced: " + s[i:i + 80])


# ---------------------------------------------------------------- places
class Place:
    __slots__ = ("local", "proj")

    def __init__(self, local, proj):
        self.local = local      # int
        self.proj = proj        # list of tuples: ('deref',) ('field', n, ty) ('downcast', name) ('index', local) ('cindex', n, fromend) ('subslice', a, b, fromend)

    def __repr__(self):
        return "Place(_%d%s)" % (self.local, "".join("." + str(p) for p in self.proj))


def parse_place(s):
    s = s.strip()
    pl, rest = _place(s, 0)
    if rest != len(s):
        raise Unsupported("place trailing: %r" % s)
    return pl


def _place(s, i):
    # returns (Place, next_index)
    if s[i] == "_":
        m = re.match(r"_(\d+)", s[i:])
        pl = Place(int(m.group(1)), [])
        i += len(m.group(0))
    elif s[i] == "(":
        j = match_paren(s, i)
        inner = s[i + 1:j]
        if inner.startswith("*"):
            p, k = _place(inner, 1)
            if k != len(inner):
                raise Unsupported("deref inner: %r" % inner)
            pl = Place(p.local, p.proj + [("deref",)])
        else:
            p, k = _place(inner, 0)
            rest = inner[k:]
            m = re.match(r"\.(\d+): (.*)$", rest, re.S)
            if m:
                pl = Place(p.local, p.proj + [("field", int(m.group(1)), m.group(2))])
            else:
                m = re.match(r" as ([A-Za-z_][A-Za-z0-9_]*)$", rest)
                if m:
                    pl = Place(p.local, p.proj + [("downcast", m.group(1))])
                else:
                    m = re.match(r" as subtype (.*)$", rest)
                    if m:
                        pl = p
                    else:
                        raise Unsupported("place paren: %r" % inner)
        i = j + 1
    else:
        raise Unsupported("place: %r" % s[i:i + 40])
    # suffix projections: [..]
    while i < len(s) and s[i] == "[":
        j = match_paren(s, i)
        inner = s[i + 1:j]
        m = re.match(r"_(\d+)$", inner)
        if m:
            pl = Place(pl.local, pl.proj + [("index", int(m.group(1)))])
        else:
            m = re.match(r"(-?)(\d+) of (\d+)$", inner)
            if m:
                pl = Place(pl.local, pl.proj + [("cindex", int(m.group(2)), m.group(1) == "-")])
            else:
                m = re.match(r"(\d+):(-?)(\d*)$", inner)
                if m:
                    pl = Place(pl.local, pl.proj + [("subslice", int(m.group(1)), int(m.group(3) or 0), m.group(2) == "-")])
                else:
                    raise Unsupported("index proj: %r" % inner)
        i = j + 1
    return pl, i


# ---------------------------------------------------------------- operands / rvalues
class Op:
    __slots__ = ("kind", "v", "ty")

    def __init__(self, kind, v, ty=None):
        self.kind, self.v, self.ty = kind, v, ty   # kind: copy|move|const

    def __repr__(self):
        return "%s(%r)" % (self.kind, self.v)


def parse_operand(s):
    s = s.strip()
    if s.startswith("copy "):
        return Op("copy", parse_place(s[5:]))
    if s.startswith("move "):
        return Op("move", parse_place(s[5:]))
    if s.startswith("no_retag copy "):
        return Op("copy", parse_place(s[14:]))
    if s.startswith("no_retag move "):
        return Op("move", parse_place(s[14:]))
    if s.startswith("const "):
        return Op("const", s[6:].strip())
    if re.match(r"^[A-Za-z_<]", s):
        return Op("fnitem", s)
    raise Unsupported("operand: %r" % s)


BINOPS = {"Add", "Sub", "Mul", "Div", "Rem", "BitAnd", "BitOr", "BitXor", "Shl", "Shr", "Eq", "Ne", "Lt", "Le", "Gt", "Ge",
          "AddWithOverflow", "SubWithOverflow", "MulWithOverflow", "Offset", "Cmp", "AddUnchecked", "SubUnchecked",
          "MulUnchecked", "ShlUnchecked", "ShrUnchecked"}
UNOPS = {"Not", "Neg", "PtrMetadata"}


class Rv:
    __slots__ = ("kind", "a")

    def __init__(self, kind, *a):
        self.kind, self.a = kind, a

    def __repr__(self):
        return "Rv(%s,%r)" % (self.kind, self.a)


def parse_rvalue(s):
    s = s.strip()
    if s.startswith(("copy ", "move ", "const ", "no_retag ")):
        # may be a cast:  <operand> as T (Kind)
        m = re.match(r"(.*) as (.*) \(([A-Za-z]+(?:\(.*\))?)\)$", s, re.S)
        if m and not s.startswith("const \""):
            try:
                return Rv("cast", parse_operand(m.group(1)), m.group(2), m.group(3))
            except Unsupported:
                pass
        return Rv("use", parse_operand(s))
    if s.startswith("&"):
        m = re.match(r"&(raw (?:const|mut) \(fake\) |raw (?:const|mut) |mut |fake shallow |fake |)(.*)$", s, re.S)
        return Rv("ref", m.group(1).strip(), parse_place(m.group(2)))
    m = re.match(r"([A-Za-z]+)\((.*)\)$", s, re.S)
    if m and m.group(1) in BINOPS:
        a, b = split_top(m.group(2))
        return Rv("bin", m.group(1), parse_operand(a), parse_operand(b))
    if m and m.group(1) in UNOPS:
        return Rv("un", m.group(1), parse_operand(m.group(2)))
    if m and m.group(1) == "discriminant":
        return Rv("discr", parse_place(m.group(2)))
    if m and m.group(1) == "Len":
        return Rv("len", parse_place(m.group(2)))
    if m and m.group(1) == "CopyForDeref":
        return Rv("use", Op("copy", parse_place(m.group(2))))
    if s.startswith("("):
        j = match_paren(s, 0)
        if j == len(s) - 1:
            inner = s[1:-1].strip()
            if inner == "":
                return Rv("tuple", [])
            parts = split_top(inner)
            try:
                return Rv("tuple", [parse_operand(p) for p in parts])
            except Unsupported:
                pass
    if s.startswith("["):
        inner = s[1:-1]
        parts = split_top(inner, ";")
        if len(parts) == 2:
            return Rv("repeat", parse_operand(parts[0]), parts[1])
        return Rv("array", [parse_operand(p) for p in split_top(inner)])
    # fn item coerced to pointer etc:  <path> as <ty> (PointerCoercion(...))
    m = re.match(r"(.*) as (.*) \((PointerCoercion\(.*\))\)$", s, re.S)
    if m:
        return Rv("fnptr", m.group(1).strip())
    # aggregates
    if s.startswith("{closure@") or s.startswith("{coroutine@"):
        j = match_paren(s, 0)
        name = s[:j + 1]
        rest = s[j + 1:].strip()
        fields = []
        if rest.startswith("{"):
            for f in split_top(rest[1:-1]):
                k, v = f.split(":", 1)
                fields.append(parse_operand(v))
        return Rv("closure", name, fields)
    # Path { f: op, ... } | Path(op, ..) | Path
    m = re.match(r"^(.*?)\s*\{(.*)\}$", s, re.S)
    if m and not m.group(1).endswith("@"):
        fields = []
        for f in split_top(m.group(2)):
            k, v = f.split(":", 1)
            fields.append((k.strip(), parse_operand(v)))
        return Rv("adt", m.group(1).strip(), [v for _, v in fields], [k for k, _ in fields])
    if s.endswith(")"):
        # find the opening paren that matches the final ')'
        depth = 0
        for i in range(len(s) - 1, -1, -1):
            if s[i] == ")":
                depth += 1
            elif s[i] == "(":
                depth -= 1
                if depth == 0:
                    break
        path = s[:i].strip()
        args = split_top(s[i + 1:-1])
        return Rv("adt", path, [parse_operand(a) for a in args], None)
    if re.match(r"^[A-Za-z_<][A-Za-z0-9_:<>, '&\[\]\(\)]*$", s):
        return Rv("adt", s, [], None)
    raise Unsupported("rvalue: %r" % s)


# ---------------------------------------------------------------- statements / terminators
class Stmt:
    __slots__ = ("kind", "a", "raw")

    def __init__(self, kind, raw, *a):
        self.kind, self.raw, self.a = kind, raw, a


RE_TARGETS = re.compile(r"-> \[(.*)\];?$")


def parse_line(line):
    """-> Stmt (statement or terminator). Lazy: rvalues are parsed on first execution."""
    s = line.strip()
    if s.endswith(";"):
        s = s[:-1]
    if s.startswith("goto -> "):
        return Stmt("goto", s, int(s[len("goto -> bb"):]))
    if s == "return":
        return Stmt("return", s)
    if s == "unreachable":
        return Stmt("unreachable", s)
    if s == "resume" or s.startswith("resume"):
        return Stmt("resume", s)
    if s.startswith("switchInt("):
        j = match_paren(s, len("switchInt"))
        op = s[len("switchInt("):j]
        m = RE_TARGETS.search(s[j:])
        targets = []
        other = None
        for t in split_top(m.group(1)):
            k, v = t.split(":")
            bb = int(v.strip()[2:])
            if k.strip() == "otherwise":
                other = bb
            else:
                targets.append((int(k.strip()), bb))
        return Stmt("switch", s, op, targets, other)
    if s.startswith("drop("):
        j = match_paren(s, 4)
        m = re.search(r"return: bb(\d+)", s[j:])
        return Stmt("drop", s, s[5:j], int(m.group(1)))
    if s.startswith("assert("):
        j = match_paren(s, 6)
        inner = split_top(s[7:j])
        m = re.search(r"success: bb(\d+)", s[j:])
        cond = inner[0]
        neg = cond.startswith("!")
        if neg:
            cond = cond[1:]
        return Stmt("assert", s, cond, neg, inner[1] if len(inner) > 1 else "", int(m.group(1)))
    if s.startswith(("StorageLive", "StorageDead", "nop", "FakeRead", "PlaceMention", "AscribeUserType", "Retag", "Coverage", "ConstEvalCounter", "BackwardIncompatibleDropHint")):
        return Stmt("nop", s)
    if s.startswith("Deinit("):
        return Stmt("nop", s)
    m = re.match(r"discriminant\((.*)\) = (\d+)$", s)
    if m:
        return Stmt("setdiscr", s, m.group(1), int(m.group(2)))
    # call:   <place> = <callee>(<args>) -> [return: bbN, unwind ...]   |  -> unwind continue (diverging)
    m = re.search(r"\) -> (\[return: bb(\d+), unwind[^\]]*\]|unwind [a-z]+( bb\d+)?|\[return: bb(\d+)\])$", s)
    if m:
        head = s[:m.start() + 1]
        ret = m.group(2) or m.group(4)
        # head = "<place> = callee(args)"
        eq = _find_assign(head)
        dest = head[:eq].strip()
        call = head[eq + 3:].strip()
        # callee = everything before the last top-level paren group
        depth = 0
        for i in range(len(call) - 1, -1, -1):
            if call[i] == ")":
                depth += 1
            elif call[i] == "(":
                depth -= 1
                if depth == 0:
                    break
        callee = call[:i].strip()
        args = call[i + 1:-1]
        return Stmt("call", s, dest, callee, args, int(ret) if ret is not None else None)
    eq = _find_assign(s)
    if eq is not None:
        return Stmt("assign", s, s[:eq].strip(), s[eq + 3:].strip())
    raise Unsupported("statement: %r" % s)


def _find_assign(s):
    """index of ' = ' at depth 0"""
    depth = 0
    i = 0
    n = len(s)
    while i < n:
        ch = s[i]
        if ch in "([{":
            depth += 1
        elif ch in ")]}":
            depth -= 1
        elif ch == '"':
            j = i + 1
            while j < n and s[j] != '"':
                if s[j] == "\\":
                    j += 1
                j += 1
            i = j
        elif depth == 0 and s.startswith(" = ", i):
            return i
        i += 1
    return None


class Fn:
    def __init__(self, name, sig):
        self.name = name
        self.sig = sig
        self.args = []        # [(local, type)]
        self.ret = None
        self.locals = {}      # local -> type string
        self.blocks = {}      # bb -> [Stmt]
        self.cleanup = set()
        self.impl_loc = None
        m = re.search(r"<impl at ([^>]+)>", name)
        if m:
            self.impl_loc = m.group(1)


RE_FN = re.compile(r"^fn (.*?)\((.*)\) -> (.*) \{$")
RE_FN0 = re.compile(r"^fn (.*?)\((.*)\) \{$")
RE_CONST = re.compile(r"^(?:const|static) (.*?): (.*) = \{$")
RE_LET = re.compile(r"^\s+let (?:mut )?_(\d+): (.*);$")
RE_BB = re.compile(r"^\s+bb(\d+)( \(cleanup\))?: \{$")


ALLOCS = {}   # path -> {alloc name -> (static name or None, bytes or None)}


def parse_file(path, want=None):
    """-> dict name -> Fn.  `want(name)` filters which bodies are parsed (all headers are indexed)."""
    fns = {}
    allocs = ALLOCS.setdefault(path, {})
    cur_alloc = None
    cur = None
    bb = None
    with open(path, errors="replace") as f:
        for raw in f:
            line = raw.rstrip("\n")
            if cur_alloc is not None:
                if line == "}":
                    cur_alloc = None
                    continue
                body = re.sub(r"^\s+(?:0x[0-9a-f]+ │ )?", "", line)
                body = body.split("│")[0]
                if isinstance(allocs[cur_alloc][1], list):
                    for t in body.split():
                        mm = re.match(r"^╾─*(alloc\d+)<imm>─*╼$", t)
                        if mm:
                            allocs[cur_alloc][1].append(("ptr", mm.group(1)))      # an 8-byte relocation
                        elif re.match(r"^[0-9a-f]{2}$", t):
                            allocs[cur_alloc][1].append(int(t, 16))
                        else:
                            allocs[cur_alloc][1] = None      # uninit / partial pointers: not decoded
                            break
                continue
            if cur is None and line.startswith("alloc"):
                mm = re.match(r"^(alloc\d+) \((?:static: ([A-Za-z0-9_:]+), )?size: (\d+), align: (\d+)\) \{$", line)
                if mm:
                    cur_alloc = mm.group(1)
                    allocs[cur_alloc] = [mm.group(2), []]
                    continue
            if cur is None:
                if line.startswith("fn "):
                    m = RE_FN.match(line) or RE_FN0.match(line)
                    if not m:
                        continue
                    name = m.group(1)
                    cur = Fn(name, line)
                    for a in split_top(m.group(2)):
                        mm = re.match(r"_(\d+): (.*)$", a, re.S)
                        if mm:
                            cur.args.append((int(mm.group(1)), mm.group(2)))
                            cur.locals[int(mm.group(1))] = mm.group(2)
                    cur.ret = m.group(3) if m.re is RE_FN else "()"
                    cur.skip = bool(want and not want(name))
                    fns[name] = cur
                elif line.startswith(("const ", "static ")):
                    mm = re.match(r"^(?:const|static) ([A-Za-z0-9_:]+): ([^=]*) = const (.*);$", line)
                    if mm:
                        f1 = Fn(mm.group(1), line)
                        f1.is_const = True
                        f1.skip = False
                        f1.const_expr = mm.group(3)
                        fns[mm.group(1)] = f1
                        continue
                    if line.endswith(" = {"):
                        body = line[line.index(" ") + 1:-4]
                        d = 0
                        cut = None
                        for i, ch in enumerate(body):
                            if ch == "<":
                                d += 1
                            elif ch == ">" and body[i - 1] != "-":
                                d -= 1
                            elif ch == ":" and d == 0 and body[i:i + 2] == ": " and body[i - 1] != ":":
                                cut = i
                                break
                        if cut is None:
                            continue
                        cname = body[:cut]
                        cur = Fn(cname, line)
                        cur.ret = body[cut + 2:]
                        cur.skip = bool(want and not want(cname))
                        cur.is_const = True
                        fns[cname] = cur
                continue
            if line == "}":
                cur = None
                bb = None
                continue
            if cur.skip:
                continue
            m = RE_LET.match(line)
            if m:
                cur.locals[int(m.group(1))] = m.group(2)
                continue
            m = RE_BB.match(line)
            if m:
                bb = int(m.group(1))
                cur.blocks[bb] = []
                if m.group(2):
                    cur.cleanup.add(bb)
                continue
            if bb is not None:
                s = line.strip()
                if s == "}":
                    bb = None
                    continue
                if s:
                    cur.blocks[bb].append(s)
    return fns
