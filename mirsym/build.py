"""Regenerate the MIR dump (and the generated entity table) from /repo's current working tree."""
import os, glob, subprocess, fcntl, shutil, time, hashlib

import sys
VERIF = os.path.dirname(os.path.dirname(os.path.abspath(__file__)))
sys.path.insert(0, VERIF)
from lib import common as _C
REPO = _C.REPO
CACHE = _C.CACHE


def dump_mir(crate):
    """-> (path of MIR text, path of generated named_entities.rs, seconds).  Always recompiles the crate."""
    os.makedirs(os.path.join(CACHE, "mir"), exist_ok=True)
    os.makedirs(CACHE, exist_ok=True)
    tdir = os.path.join(CACHE, "mir-target")
    lock = open(os.path.join(CACHE, "mir.lock"), "w")
    fcntl.flock(lock, fcntl.LOCK_EX)
    t0 = time.time()
    try:
        for d in glob.glob(os.path.join(tdir, "debug", ".fingerprint", crate + "-*")):
            shutil.rmtree(d, ignore_errors=True)
        for old in glob.glob(os.path.join(CACHE, "mir", crate + "-*.mir*")):
            try:
                pid = int(os.path.basename(old).split("-")[1].split(".")[0])
                os.kill(pid, 0)
            except (ValueError, ProcessLookupError):
                try:
                    os.remove(old)
                except OSError:
                    pass
            except PermissionError:
                pass
        out = os.path.join(CACHE, "mir", "%s-%d.mir" % (crate, os.getpid()))
        env = dict(os.environ, CARGO_TARGET_DIR=tdir, CARGO_NET_OFFLINE="true")
        env.pop("RUSTFLAGS", None)
        with open(out, "w") as f, open(out + ".err", "w") as e:
            r = subprocess.run(["cargo", "+nightly", "rustc", "--offline", "-p", crate, "--lib", "--",
                                "-Zunpretty=mir", "-C", "debug-assertions=off", "-C", "overflow-checks=on"],
                               cwd=REPO, stdout=f, stderr=e, env=env)
        if r.returncode != 0 or os.path.getsize(out) < 1000:
            raise RuntimeError("MIR dump failed for %s: see %s.err" % (crate, out))
        ents = sorted(glob.glob(os.path.join(tdir, "debug", "build", "web_atoms-*", "out", "named_entities.rs")),
                      key=os.path.getmtime)
        ent = ents[-1] if ents else None
    finally:
        fcntl.flock(lock, fcntl.LOCK_UN)
    return out, ent, time.time() - t0


def replay_binary(profile="dev"):
    """build /verif/replay against /repo's working tree; -> path of the executable"""
    tdir = os.path.join(CACHE, "native-replay")
    env = dict(os.environ, CARGO_TARGET_DIR=tdir, CARGO_NET_OFFLINE="true")
    env.pop("RUSTFLAGS", None)
    cmd = ["cargo", "build", "--offline"] + (["--release"] if profile == "release" else [])
    lock = open(os.path.join(CACHE, "replay.lock"), "w")
    fcntl.flock(lock, fcntl.LOCK_EX)
    try:
        r = subprocess.run(cmd, cwd=_C.crate_dir("replay"), env=env, stdout=subprocess.PIPE, stderr=subprocess.STDOUT)
    finally:
        fcntl.flock(lock, fcntl.LOCK_UN)
    if r.returncode != 0:
        raise RuntimeError("replay build failed:\n" + r.stdout.decode(errors="replace")[-2000:])
    return os.path.join(tdir, "release" if profile == "release" else "debug", "verif_replay")
