"""C20: the real RcDom (rcdom/lib.rs, interpreted from its own MIR dump) run in lock-step with the model DOM.

Every TreeSink call the interpreted tree builder makes is answered by the model DOM (domsink.py) as before and, when the
tee is active, also forwarded to the interpreted `impl TreeSink for RcDom` with the handles translated (model handles are
small integers, RcDom's are Rc<Node>).  At the end the two trees are compared.

Rc / Weak are modelled as identity-carrying boxes; strong counts are not modelled (a node is alive while referenced from
the interpreter's values), so `Weak::upgrade` always succeeds."""
import z3
from .interp import Struct, Enum, Tup, Ptr, UNIT, Panic, is_sym
from . import models as MD
from .models import model, deref, deref_ptr, Unsupported, some, none, val_eq, seq_eq, Atom, Tendril, VecM, clone_val
from . import domsink

PROG_RC = None          # Program of markup5ever_rcdom, set by the worker initialiser


class RcM:
    """Rc<T>: shared cell with identity"""
    __slots__ = ("cell",)

    def __init__(self, v):
        self.cell = [v]


class WeakM:
    __slots__ = ("rc",)

    def __init__(self, rc):
        self.rc = rc


@model("Rc::new")
def rc_new(m, a, c):
    return RcM(a[0])


@model("<Rc as Deref>::deref", "<Rc as AsRef>::as_ref")
def rc_deref(m, a, c):
    return Ptr(deref_rc(a[0]).cell, 0)


def deref_rc(v):
    while isinstance(v, Ptr):
        v = v.load()
    if not isinstance(v, RcM):
        raise Unsupported("expected Rc, got %r" % (v,))
    return v


@model("<Rc as Clone>::clone")
def rc_clone(m, a, c):
    return deref_rc(a[0])


@model("Rc::downgrade")
def rc_downgrade(m, a, c):
    return WeakM(deref_rc(a[0]))


@model("std::rc::Weak::upgrade", "Weak::upgrade", "alloc::rc::Weak::upgrade")
def weak_upgrade(m, a, c):
    w = a[0]
    while isinstance(w, Ptr):
        w = w.load()
    return some(w.rc)


@model("<Weak as Clone>::clone", "<std::rc::Weak as Clone>::clone")
def weak_clone(m, a, c):
    w = a[0]
    while isinstance(w, Ptr):
        w = w.load()
    return w


@model("Rc::ptr_eq")
def rc_ptr_eq(m, a, c):
    return deref_rc(a[0]) is deref_rc(a[1])


@model("<QualName as ElemName>::local_name")
def qn_local_name(m, a, c):
    return Ptr(deref(a[0]).f, 2)


@model("<QualName as ElemName>::ns")
def qn_ns(m, a, c):
    return Ptr(deref(a[0]).f, 1)


# ---------------------------------------------------------------- the tee
def activate(m):
    """build an RcDom by interpreting RcDom::default and start forwarding"""
    if PROG_RC is None:
        raise Unsupported("rcdom MIR not loaded")
    f = PROG_RC.by_key.get("<RcDom as Default>::default")
    dom = rc_run(m, f, [])
    st = domsink.state(m)
    st["rcdom"] = {"dom": dom, "map": {0: dom.f[0]}, "mismatch": []}      # RcDom { document, errors, quirks_mode }
    return st["rcdom"]


def rc_run(m, f, args):
    old = m.prog
    m.prog = PROG_RC
    try:
        return m.run_fn(f, args)
    finally:
        m.prog = old


def rc_call(m, name, args):
    f = PROG_RC.by_key.get("<RcDom as TreeSink>::" + name)
    if f is None:
        raise Unsupported("RcDom has no MIR for " + name)
    return rc_run(m, f, args)


def tee(m):
    st = m.notes.get("tree")
    return st.get("rcdom") if st else None


def H2(t, h):
    h = domsink.H(h)
    if h not in t["map"]:
        raise Unsupported("handle %r unknown to the RcDom side" % h)
    return t["map"][h]


def not_(child, t):
    """NodeOrText<int> -> NodeOrText<Rc>"""
    if child.variant == "AppendNode":
        return Enum(child.ty, child.variant, child.idx, [H2(t, child.f[0])])
    return Enum(child.ty, child.variant, child.idx, [Tendril(list(domsink.text_of(child)))])


def _wrap(key, fwd):
    orig = MD.M[key]

    def g(m, a, c, _o=orig, _f=fwd):
        t = tee(m)
        if t is None:
            return _o(m, a, c)
        pre = _f(m, t, a, None, "pre") if getattr(_f, "two_phase", False) else None
        r = _o(m, a, c)
        _f(m, t, a, r, pre)
        return r
    MD.M[key] = g


def _sinkp(t):
    return Ptr([t["dom"]], 0)


def f_create_element(m, t, a, r, pre):
    st = domsink.state(m)
    nd = st["nodes"][r]
    fl = nd["flags"]
    flags = Struct("ElementFlags", [bool(fl.get("template")), bool(fl.get("mathml_annotation_xml_integration_point")), fl.get("had_duplicate_attributes", False)])
    rc = rc_call(m, "create_element", [_sinkp(t), clone_val(a[1]), VecM([clone_val(x) for x in a[2].v]), flags])
    t["map"][r] = rc


def f_create_comment(m, t, a, r, pre):
    t["map"][r] = rc_call(m, "create_comment", [_sinkp(t), Tendril(list(domsink.state(m)["nodes"][r]["text"]))])


def f_create_pi(m, t, a, r, pre):
    t["map"][r] = rc_call(m, "create_pi", [_sinkp(t), clone_val(deref(a[1])), clone_val(deref(a[2]))])


def f_append(m, t, a, r, pre):
    rc_call(m, "append", [_sinkp(t), Ptr([H2(t, a[1])], 0), not_(a[2], t)])


def f_append_before_sibling(m, t, a, r, pre):
    rc_call(m, "append_before_sibling", [_sinkp(t), Ptr([H2(t, a[1])], 0), not_(a[2], t)])


def f_append_based(m, t, a, r, pre):
    rc_call(m, "append_based_on_parent_node", [_sinkp(t), Ptr([H2(t, a[1])], 0), Ptr([H2(t, a[2])], 0), not_(a[3], t)])


def f_doctype(m, t, a, r, pre):
    rc_call(m, "append_doctype_to_document", [_sinkp(t)] + [clone_val(deref(x)) if not isinstance(x, Tendril) else Tendril(list(x.ch)) for x in a[1:4]])


def f_add_attrs(m, t, a, r, pre):
    attrs = a[2] if isinstance(a[2], VecM) else deref(a[2])
    rc_call(m, "add_attrs_if_missing", [_sinkp(t), Ptr([H2(t, a[1])], 0), VecM([clone_val(x) for x in attrs.v])])


def f_remove(m, t, a, r, pre):
    rc_call(m, "remove_from_parent", [_sinkp(t), Ptr([H2(t, a[1])], 0)])


def f_reparent(m, t, a, r, pre):
    rc_call(m, "reparent_children", [_sinkp(t), Ptr([H2(t, a[1])], 0), Ptr([H2(t, a[2])], 0)])


def f_template(m, t, a, r, pre):
    rc = rc_call(m, "get_template_contents", [_sinkp(t), Ptr([H2(t, a[1])], 0)])
    if r in t["map"] and t["map"][r] is not rc:
        t["mismatch"].append("get_template_contents returns a different fragment on a second call")
    t["map"][r] = rc


def f_quirks(m, t, a, r, pre):
    rc_call(m, "set_quirks_mode", [_sinkp(t), a[1]])


def f_mathml(m, t, a, r, pre):
    got = rc_call(m, "is_mathml_annotation_xml_integration_point", [_sinkp(t), Ptr([H2(t, a[1])], 0)])
    if bool(got) != bool(r):
        t["mismatch"].append("is_mathml_annotation_xml_integration_point answers %r, the model %r" % (got, r))


def f_clone_option(m, t, a, r, pre):
    rc_call(m, "maybe_clone_an_option_into_selectedcontent", [_sinkp(t), Ptr([H2(t, a[1])], 0)])


def f_same(m, t, a, r, pre):
    got = rc_call(m, "same_node", [_sinkp(t), Ptr([H2(t, a[1])], 0), Ptr([H2(t, a[2])], 0)])
    if bool(got) != bool(r):
        t["mismatch"].append("same_node answers %r, the model %r" % (got, r))


for _k, _f in (("create_element_with_flags", f_create_element), ("create_element", f_create_element), ("<Sink as TreeSink>::create_comment", f_create_comment),
               ("<Sink as TreeSink>::create_pi", f_create_pi), ("<Sink as TreeSink>::append", f_append), ("<Sink as TreeSink>::append_before_sibling", f_append_before_sibling),
               ("<Sink as TreeSink>::append_based_on_parent_node", f_append_based), ("<Sink as TreeSink>::append_doctype_to_document", f_doctype),
               ("<Sink as TreeSink>::add_attrs_if_missing", f_add_attrs), ("<Sink as TreeSink>::remove_from_parent", f_remove),
               ("<Sink as TreeSink>::reparent_children", f_reparent), ("<Sink as TreeSink>::get_template_contents", f_template),
               ("<Sink as TreeSink>::set_quirks_mode", f_quirks), ("<Sink as TreeSink>::is_mathml_annotation_xml_integration_point", f_mathml),
               ("<Sink as TreeSink>::same_node", f_same), ("<Sink as TreeSink>::maybe_clone_an_option_into_selectedcontent", f_clone_option)):
    _wrap(_k, _f)
for _alias in ("markup5ever::interface::create_element", "interface::create_element", "markup5ever::interface::create_element_with_flags", "interface::create_element_with_flags"):
    MD.M[_alias] = MD.M["create_element_with_flags"]


# ---------------------------------------------------------------- comparing the two trees
def rc_tree(m, rc, seen=None):
    """-> nested tuples (kind, payload..., [children]) read off the interpreted RcDom; checks the parent links"""
    seen = seen if seen is not None else set()
    if id(rc) in seen:
        raise Panic("RcDom: a node is reachable twice (cycle or shared child)")
    seen.add(id(rc))
    node = rc.cell[0]                       # Node { parent, children, data }
    parent, children, data = node.f
    kids = []
    for k in children.v:
        kn = k.cell[0]
        pw = kn.f[0]
        pw = pw.f[0] if isinstance(pw, Enum) and pw.variant == "Some" else None
        if pw is None or pw.rc is not rc:
            kids.append(("BAD-PARENT",))
        kids.append(rc_tree(m, k, seen))
    v = data.variant
    if v == "Document":
        return ("document", kids)
    if v == "Doctype":
        return ("doctype", list(data.f[0].ch), list(data.f[1].ch), list(data.f[2].ch), kids)
    if v == "Text":
        return ("text", list(data.f[0].ch), kids)
    if v == "Comment":
        return ("comment", list(data.f[0].ch), kids)
    if v == "ProcessingInstruction":
        return ("pi", kids)
    name, attrs, tmpl, ip = data.f
    tc = rc_tree(m, tmpl.f[0], seen) if isinstance(tmpl, Enum) and tmpl.variant == "Some" else None
    return ("element", name, [(x.f[0], x.f[1]) for x in attrs.v], tc, kids)


def model_tree(st, h):
    nd = st["nodes"][h]
    kids = [model_tree(st, k) for k in nd["children"]]
    k = nd["kind"]
    if k == "document":
        return ("document", kids)
    if k == "doctype":
        return ("doctype", nd["text"][0], nd["text"][1], nd["text"][2], kids)
    if k == "text":
        return ("text", nd["text"], kids)
    if k == "comment":
        return ("comment", nd["text"], kids)
    if k == "pi":
        return ("pi", kids)
    if k == "fragment":
        return ("document", kids)
    tc = model_tree(st, nd["template"]) if nd["template"] is not None else None
    return ("element", nd["name"], [(a.f[0], a.f[1]) for a in nd["attrs"]], tc, kids)


def tree_diff(a, b, path="document"):
    """-> None | str (structural difference) ; appends z3 'differs' conditions to the list returned as second element"""
    conds = []

    def go(x, y, where):
        if x[0] == "BAD-PARENT" or y[0] == "BAD-PARENT":
            return "%s: a child's parent link does not name the node whose child list contains it" % where
        if x[0] != y[0]:
            return "%s: RcDom has a %s where the model has a %s" % (where, x[0], y[0])
        if x[0] in ("text", "comment"):
            if len(x[1]) != len(y[1]):
                return "%s: %s of %d characters vs %d" % (where, x[0], len(x[1]), len(y[1]))
            e = seq_eq(list(x[1]), list(y[1]))
            if e is False:
                return "%s: %s content differs" % (where, x[0])
            if e is not True:
                conds.append(z3.Not(e))
        if x[0] == "doctype":
            for p, q in zip(x[1:4], y[1:4]):
                e = seq_eq(list(p), list(q)) if len(p) == len(q) else False
                if e is False:
                    return "%s: doctype fields differ" % where
                if e is not True:
                    conds.append(z3.Not(e))
        if x[0] == "element":
            e = val_eq(x[1], y[1])
            if e is False:
                return "%s: element names differ" % where
            if e is not True:
                conds.append(z3.Not(e))
            if len(x[2]) != len(y[2]):
                return "%s: %d attributes vs %d" % (where, len(x[2]), len(y[2]))
            for (n1, v1), (n2, v2) in zip(x[2], y[2]):
                for p, q in ((n1, n2), (v1, v2)):
                    e = val_eq(p, q)
                    if e is False:
                        return "%s: attributes differ" % where
                    if e is not True:
                        conds.append(z3.Not(e))
            if (x[3] is None) != (y[3] is None):
                return "%s: template contents present on one side only" % where
            if x[3] is not None:
                r = go(x[3], y[3], where + "/template contents")
                if r:
                    return r
        kx, ky = x[-1], y[-1]
        kx = [k for k in kx]
        if any(k[0] == "BAD-PARENT" for k in kx):
            return "%s: a child's parent link does not name the node whose child list contains it" % where
        if len(kx) != len(ky):
            return "%s: %d children vs %d" % (where, len(kx), len(ky))
        for i, (p, q) in enumerate(zip(kx, ky)):
            r = go(p, q, "%s/%d" % (where, i))
            if r:
                return r
        return None
    return go(a, b, path), conds


def compare(m):
    """-> list of (message, extra condition or None) for this path"""
    st = domsink.state(m)
    t = st.get("rcdom")
    if t is None:
        return []
    out = [(x, None) for x in t["mismatch"]]
    a = rc_tree(m, t["dom"].f[0])
    b = model_tree(st, 0)
    s, conds = tree_diff(a, b)
    if s:
        out.append((s, None))
    elif conds:
        out.append(("a text / name / attribute value differs between RcDom and the model", z3.Or(conds)))
    q = t["dom"].f[2]
    qv = q.variant if isinstance(q, Enum) else repr(q)
    if qv != (st["quirks"] or "NoQuirks"):
        out.append(("quirks mode %s in RcDom, %s in the model" % (qv, st["quirks"]), None))
    return out
