"""Engine M core: a path-forking symbolic interpreter for rustc MIR.

Scalars are Python ints/bools (concrete) or z3 terms (symbolic).  Aggregates are Python
objects, references are (container, key) pairs.  A path is explored by *replay*: the
machine is re-run from the start following a recorded list of branch decisions; at the
first undecided symbolic branch every feasible successor (z3 says sat) is queued.
"""
import re, z3
from .mirparse import (parse_file, parse_line, parse_rvalue, parse_operand, parse_place, split_top,
                       Unsupported, Place, Op, Rv)

UNIT = ()


class Panic(Exception):
    """the interpreted program panics on this path"""

    def __init__(self, msg):
        Exception.__init__(self, msg)
        self.msg = msg


class PathEnd(Exception):
    pass


# ---------------------------------------------------------------- values
class Struct:
    __slots__ = ("ty", "f")

    def __init__(self, ty, f):
        self.ty, self.f = ty, f

    def __repr__(self):
        return "%s{%s}" % (self.ty, ", ".join(repr(x) for x in self.f))


class Enum:
    __slots__ = ("ty", "variant", "idx", "f")

    def __init__(self, ty, variant, idx, f):
        self.ty, self.variant, self.idx, self.f = ty, variant, idx, f

    def __repr__(self):
        return "%s::%s(%s)" % (self.ty, self.variant, ", ".join(repr(x) for x in self.f))


class Tup:
    __slots__ = ("f",)

    def __init__(self, f):
        self.f = f

    def __repr__(self):
        return "(%s)" % ", ".join(repr(x) for x in self.f)


class Arr:
    __slots__ = ("f",)

    def __init__(self, f):
        self.f = f


class Ptr:
    """reference / pointer to a storage location: container[key]"""
    __slots__ = ("c", "k")

    def __init__(self, c, k):
        self.c, self.k = c, k

    def load(self):
        return self.c[self.k]

    def store(self, v):
        self.c[self.k] = v

    def __repr__(self):
        return "&<%s>" % (type(self.c[self.k]).__name__,)


class Closure:
    __slots__ = ("name", "f")

    def __init__(self, name, f):
        self.name, self.f = name, f


class FnPtr:
    __slots__ = ("name",)

    def __init__(self, name):
        self.name = name


class Str:
    """&str / &[u8] value: a list of character (or byte) values, each an int or a z3 term"""
    __slots__ = ("ch", "bytes")

    def __init__(self, ch, bytes_=False):
        self.ch, self.bytes = list(ch), bytes_

    def __repr__(self):
        return "Str(%s)" % show_chars(self.ch)


def show_chars(chs):
    out = []
    for c in chs:
        if isinstance(c, int):
            out.append(chr(c) if 32 <= c < 127 else "\\u{%x}" % c)
        else:
            out.append("{%s}" % z3.simplify(c))
    return "".join(out)


def is_sym(v):
    return isinstance(v, z3.ExprRef)


def copy_val(v):
    """value copy for `copy` operands (Copy types): aggregates are duplicated, references shared"""
    if isinstance(v, Struct):
        return Struct(v.ty, [copy_val(x) for x in v.f])
    if isinstance(v, Enum):
        return Enum(v.ty, v.variant, v.idx, [copy_val(x) for x in v.f])
    if isinstance(v, Tup):
        return Tup([copy_val(x) for x in v.f])
    if isinstance(v, Arr):
        return Arr([copy_val(x) for x in v.f])
    return v


# ---------------------------------------------------------------- types
INT_W = {"u8": 8, "i8": 8, "u16": 16, "i16": 16, "u32": 32, "i32": 32, "char": 32, "u64": 64, "i64": 64,
         "usize": 64, "isize": 64, "u128": 128, "i128": 128}
SIGNED = {"i8", "i16", "i32", "i64", "isize", "i128"}


def width_of(ty):
    ty = ty.strip()
    return INT_W.get(ty)


def mask(v, w):
    return v & ((1 << w) - 1)


def to_bv(v, w):
    if isinstance(v, bool):
        return z3.BitVecVal(1 if v else 0, w)
    if isinstance(v, int):
        return z3.BitVecVal(v, w)
    if z3.is_bool(v):
        return z3.If(v, z3.BitVecVal(1, w), z3.BitVecVal(0, w))
    return v


def to_bool(v):
    if isinstance(v, bool):
        return z3.BoolVal(v)
    if isinstance(v, int):
        return z3.BoolVal(v != 0)
    if z3.is_bool(v):
        return v
    return v != 0


def signed(v, w):
    v = mask(v, w)
    return v - (1 << w) if v >> (w - 1) else v


# ---------------------------------------------------------------- frames
class Frame:
    __slots__ = ("fn", "locals", "bb", "ip", "dest", "ret_bb")

    def __init__(self, fn):
        self.fn = fn
        self.locals = {}
        self.bb = 0
        self.ip = 0


class Machine:
    """One run along one path.  `decisions` is the replay prefix."""

    def __init__(self, prog, decisions, solver_timeout_ms=20000):
        self.prog = prog
        self.decisions = list(decisions)
        self.taken = []              # decisions actually taken on this run
        self.pending = []            # alternative decision lists discovered on this run
        self.pc = []                 # path condition (list of z3 Bool)
        self.solver = z3.Solver()
        self.solver.set("timeout", solver_timeout_ms)
        self.nqueries = 0
        self.steps = 0
        self.max_steps = 400000
        self.trace = None
        self.notes = {}

    # ---- branching -------------------------------------------------------------------
    def assume(self, cond):
        if cond is True:
            return
        self.pc.append(cond)
        self.solver.add(cond)

    def choose(self, options, what=""):
        """options: list of (label, z3 Bool condition or True).  Returns the chosen label after
        adding its condition to the path.  Infeasible options are dropped (solver: unsat)."""
        i = len(self.taken)
        if i < len(self.decisions):
            lab = self.decisions[i]
            for l, c in options:
                if l == lab:
                    self.taken.append(lab)
                    self.assume(c)
                    return lab
            raise RuntimeError("replay diverged at decision %d (%s): %r not in %r" % (i, what, lab, [l for l, _ in options]))
        feas = []
        for l, c in options:
            if c is True:
                feas.append((l, c))
                continue
            if c is False:
                continue
            self.solver.push()
            self.solver.add(c)
            self.nqueries += 1
            r = self.solver.check()
            self.solver.pop()
            if r == z3.sat:
                feas.append((l, c))
            elif r == z3.unknown:
                raise Unsupported("solver returned unknown at %s" % what)
        if not feas:
            raise PathEnd("no feasible successor at %s" % what)
        for l, c in feas[1:]:
            self.pending.append(self.taken + [l])
        l, c = feas[0]
        self.taken.append(l)
        self.assume(c)
        return l

    def branch_bool(self, cond, what=""):
        """fork on a symbolic boolean; returns Python bool"""
        if isinstance(cond, bool):
            return cond
        if isinstance(cond, int):
            return cond != 0
        c = z3.simplify(to_bool(cond))
        if z3.is_true(c):
            return True
        if z3.is_false(c):
            return False
        return self.choose([(True, c), (False, z3.Not(c))], what)

    def concretize(self, v, candidates, what=""):
        """fork so that v equals one of the concrete candidates (or 'other')"""
        if not is_sym(v):
            return v
        v = z3.simplify(v)
        if z3.is_bv_value(v):
            return v.as_long()
        opts = [(c, v == c) for c in candidates]
        opts.append(("other", z3.And([v != c for c in candidates]) if candidates else True))
        return self.choose(opts, what)

    # ---- calls --------------------------------------------------------------------------
    def call(self, fname, args):
        fn = self.prog.fn(fname)
        return self.run_fn(fn, args)

    def run_fn(self, fn, args):
        fr = Frame(fn)
        if len(args) != len(fn.args):
            raise Unsupported("arity mismatch calling %s: %d vs %d" % (fn.name, len(args), len(fn.args)))
        for (l, _), a in zip(fn.args, args):
            fr.locals[l] = a
        bb = 0
        while True:
            block = self.prog.block(fn, bb)
            self.cur_fn = fn
            nxt = None
            for st in block:
                self.steps += 1
                if self.steps > self.max_steps:
                    raise Panic("step budget exhausted (suspected livelock)")
                k = st.kind
                if k == "assign":
                    try:
                        self.store_place(fr, st.a[0], self.rvalue(fr, st.a[1]))
                    except Unsupported as e:
                        if not getattr(e, "located", False):
                            e.located = True
                            e.args = ("%s @ %s bb%d: %s" % (e.args[0] if e.args else "", fn.name[-80:], bb, st.raw.strip()[:160]),)
                        raise
                elif k == "nop":
                    pass
                elif k == "call":
                    dest, callee, argp, ret = st.a
                    argv = [self.operand(fr, o) for o in argp]
                    r = self.prog.dispatch(self, fr, callee, argv)
                    self.cur_fn = fn
                    if ret is None:
                        raise Panic("diverging call %s returned" % callee)
                    self.store_place(fr, dest, r)
                    nxt = ret
                elif k == "goto":
                    nxt = st.a[0]
                elif k == "switch":
                    nxt = self.switch(fr, st)
                elif k == "return":
                    return fr.locals.get(0, UNIT)
                elif k == "drop":
                    self.prog.drop(self, self.load_place_opt(fr, st.a[0]))
                    nxt = st.a[1]
                elif k == "assert":
                    cond = self.operand(fr, st.a[0])
                    want = not st.a[1]
                    ok = self.branch_bool(cond if want else z3.Not(to_bool(cond)) if is_sym(cond) else (not cond), "assert " + st.a[2][:40])
                    if not ok:
                        raise Panic("MIR assert failed: " + st.a[2][:80])
                    nxt = st.a[3]
                elif k == "setdiscr":
                    raise Unsupported("SetDiscriminant")
                elif k == "unreachable":
                    raise Panic("reached MIR `unreachable` in %s bb%d" % (fn.name, bb))
                elif k == "resume":
                    raise Panic("resume")
                else:
                    raise Unsupported("stmt kind " + k)
            if nxt is None:
                raise Unsupported("block without terminator: %s bb%d" % (fn.name, bb))
            bb = nxt

    def switch(self, fr, st):
        v = self.operand(fr, st.a[0])
        targets, other = st.a[1], st.a[2]
        if isinstance(v, bool):
            v = 1 if v else 0
        if isinstance(v, int):
            for val, bb in targets:
                if v == val:
                    return bb
            if other is None:
                raise Panic("switchInt without matching target")
            return other
        if z3.is_bool(v):
            b = self.branch_bool(v, "switch")
            return self._switch_int(1 if b else 0, targets, other)
        v = z3.simplify(v)
        if z3.is_bv_value(v):
            return self._switch_int(v.as_long(), targets, other)
        opts = []
        w = v.size()
        for val, bb in targets:
            opts.append((("t", val), v == z3.BitVecVal(val, w)))
        if other is not None:
            opts.append((("o",), z3.And([v != z3.BitVecVal(val, w) for val, _ in targets]) if targets else True))
        lab = self.choose(opts, "switchInt")
        if lab[0] == "o":
            return other
        for val, bb in targets:
            if val == lab[1]:
                return bb

    @staticmethod
    def _switch_int(v, targets, other):
        for val, bb in targets:
            if v == val:
                return bb
        if other is None:
            raise Panic("switchInt without matching target")
        return other

    # ---- places ---------------------------------------------------------------------------
    def resolve(self, fr, pl):
        """-> Ptr to the storage location of place"""
        cur = Ptr(fr.locals, pl.local)
        for p in pl.proj:
            k = p[0]
            if k == "deref":
                v = cur.load()
                if isinstance(v, Ptr):
                    cur = v
                else:
                    cur = self.prog.deref_special(self, v)
            elif k == "field":
                v = cur.load()
                if isinstance(v, (Struct, Enum, Tup, Closure)):
                    cur = Ptr(v.f, p[1])
                elif isinstance(v, Ptr) and ("Unique<" in p[2] or "NonNull<" in p[2]):
                    pass        # Box<T> is modelled as a plain pointer: Box.0 (Unique) .0 (NonNull) is the pointer itself
                else:
                    cur = self.prog.field_special(self, v, p[1], p[2])
            elif k == "downcast":
                v = cur.load()
                if isinstance(v, Enum) and v.variant != p[1]:
                    raise Panic("downcast to %s of %r" % (p[1], v))
            elif k == "index":
                v = cur.load()
                i = fr.locals[p[1]]
                seq = v.f if isinstance(v, (Arr, Tup)) else self.prog.index_special(self, v)
                if is_sym(i):
                    # fork over the possible positions (the bounds-check assert precedes the access in MIR)
                    i = self.concretize(i, list(range(len(seq))), "index")
                    if i == "other":
                        raise Panic("index out of bounds (symbolic index)")
                cur = Ptr(seq, i)
            elif k == "cindex":
                v = cur.load()
                seq = v.f if isinstance(v, (Arr, Tup)) else self.prog.index_special(self, v)
                cur = Ptr(seq, (len(seq) - p[1]) if p[2] else p[1])
            else:
                raise Unsupported("projection " + k)
        return cur

    def load_place(self, fr, pl):
        if not pl.proj:
            try:
                return fr.locals[pl.local]
            except KeyError:
                raise Unsupported("read of unset local _%d in %s" % (pl.local, fr.fn.name))
        return self.resolve(fr, pl).load()

    def load_place_opt(self, fr, pl):
        try:
            return self.load_place(fr, pl)
        except (KeyError, Unsupported):
            return None

    def store_place(self, fr, pl, v):
        if not pl.proj:
            fr.locals[pl.local] = v
        else:
            self.resolve(fr, pl).store(v)

    # ---- operands / rvalues ---------------------------------------------------------------
    def operand(self, fr, op):
        if op.kind == "const":
            return self.prog.const(self, op.v)
        if op.kind == "fnitem":
            return FnPtr(op.v)
        v = self.load_place(fr, op.v)
        if op.kind == "copy":
            return copy_val(v)
        return v

    def op_type(self, fr, op):
        """best-effort static type of an operand"""
        if op.kind == "fnitem":
            return None
        if op.kind == "const":
            m = re.search(r"_([a-z]+[0-9]*)(?: is .*)?$", op.v)
            if m and m.group(1) in INT_W:
                return m.group(1)
            if op.v in ("true", "false"):
                return "bool"
            if op.v.startswith("'"):
                return "char"
            return None
        pl = op.v
        ty = fr.fn.locals.get(pl.local)
        for p in pl.proj:
            if p[0] == "field":
                ty = p[2]
            elif p[0] == "deref" and ty:
                ty = re.sub(r"^&(mut )?('[a-z_]+ )?", "", ty.strip())
                ty = re.sub(r"^\*(const|mut) ", "", ty)
            else:
                ty = None if p[0] != "downcast" else ty
        return ty

    def rvalue(self, fr, rv):
        k = rv.kind
        if k == "use":
            return self.operand(fr, rv.a[0])
        if k == "ref":
            return self.resolve(fr, rv.a[1])
        if k == "bin":
            return self.binop(fr, rv.a[0], rv.a[1], rv.a[2])
        if k == "un":
            return self.unop(fr, rv.a[0], rv.a[1])
        if k == "cast":
            return self.cast(fr, rv.a[0], rv.a[1], rv.a[2])
        if k == "discr":
            v = self.load_place(fr, rv.a[0])
            if isinstance(v, Enum):
                return v.idx
            return self.prog.discr_special(self, v)
        if k == "tuple":
            return Tup([self.operand(fr, o) for o in rv.a[0]]) if rv.a[0] else UNIT
        if k == "array":
            return Arr([self.operand(fr, o) for o in rv.a[0]])
        if k == "repeat":
            v = self.operand(fr, rv.a[0])
            n = int(re.match(r"(\d+)", rv.a[1].replace("const ", "")).group(1))
            return Arr([copy_val(v) for _ in range(n)])
        if k == "closure":
            return Closure(rv.a[0], [self.operand(fr, o) for o in rv.a[1]])
        if k == "fnptr":
            return FnPtr(rv.a[0])
        if k == "adt":
            return self.prog.make_adt(self, rv.a[0], [self.operand(fr, o) for o in rv.a[1]], rv.a[2])
        if k == "len":
            v = self.load_place(fr, rv.a[0])
            if isinstance(v, Arr):
                return len(v.f)
            return self.prog.len_special(self, v)
        raise Unsupported("rvalue kind " + k)

    def binop(self, fr, op, a, b):
        x, y = self.operand(fr, a), self.operand(fr, b)
        ty = self.op_type(fr, a) or self.op_type(fr, b)
        if isinstance(x, Enum) and not x.f:
            x = x.idx
        if isinstance(y, Enum) and not y.f:
            y = y.idx
        return arith(op, x, y, ty)

    def unop(self, fr, op, a):
        x = self.operand(fr, a)
        ty = self.op_type(fr, a)
        if op == "Not":
            if isinstance(x, bool):
                return not x
            if z3.is_bool(x) if is_sym(x) else False:
                return z3.Not(x)
            if ty == "bool":
                return (not x) if not is_sym(x) else z3.Not(to_bool(x))
            w = width_of(ty or "") or (x.size() if is_sym(x) else 64)
            if is_sym(x):
                return ~x
            return mask(~x, w)
        if op == "PtrMetadata":
            v = x.load() if isinstance(x, Ptr) else x
            return len(self.prog.index_special(self, v)) if not isinstance(v, (Arr, Tup)) else len(v.f)
        if op == "Neg":
            w = width_of(ty or "") or (x.size() if is_sym(x) else 64)
            if is_sym(x):
                return -x
            return mask(-x, w)
        raise Unsupported("unop " + op)

    def cast(self, fr, a, ty, kind):
        x = self.operand(fr, a)
        ty = ty.strip()
        if kind in ("IntToInt",):
            src = self.op_type(fr, a)
            if isinstance(x, Enum) and not x.f:
                x = x.idx
            if isinstance(x, bool):
                x = 1 if x else 0
            w = width_of(ty)
            if w is None:
                raise Unsupported("cast to " + ty)
            if is_sym(x):
                if z3.is_bool(x):
                    return to_bv(x, w)
                sw = x.size()
                if sw == w:
                    return x
                if sw > w:
                    return z3.Extract(w - 1, 0, x)
                if src in SIGNED:
                    return z3.SignExt(w - sw, x)
                return z3.ZeroExt(w - sw, x)
            sw = width_of(src or "") or 64
            if src in SIGNED:
                x = signed(x, sw)
            return mask(x, w)
        if kind.startswith("PointerCoercion") or kind in ("PtrToPtr", "Transmute", "Subtype"):
            return x
        raise Unsupported("cast kind %s to %s" % (kind, ty))


def arith(op, x, y, ty):
    """binary MIR operation on concrete ints/bools or z3 terms"""
    w = width_of(ty or "")
    if isinstance(x, bool) and not is_sym(y) and not isinstance(y, bool) and ty == "bool":
        y = bool(y)
    sym = is_sym(x) or is_sym(y)
    if not sym:
        if isinstance(x, bool) or isinstance(y, bool):
            x, y = int(x), int(y)
            r = {"Eq": x == y, "Ne": x != y, "BitAnd": bool(x & y), "BitOr": bool(x | y), "BitXor": bool(x ^ y),
                 "Lt": x < y, "Le": x <= y, "Gt": x > y, "Ge": x >= y}.get(op)
            if r is None:
                raise Unsupported("bool op " + op)
            return r
        if not isinstance(x, int) or not isinstance(y, int):
            raise Unsupported("arith %s on %r, %r" % (op, type(x), type(y)))
        w = w or 64
        sg = ty in SIGNED
        if sg:
            x, y = signed(x, w), signed(y, w)
        if op in ("Eq", "Ne", "Lt", "Le", "Gt", "Ge"):
            return {"Eq": x == y, "Ne": x != y, "Lt": x < y, "Le": x <= y, "Gt": x > y, "Ge": x >= y}[op]
        if op in ("Add", "AddUnchecked"):
            return mask(x + y, w)
        if op in ("Sub", "SubUnchecked"):
            return mask(x - y, w)
        if op in ("Mul", "MulUnchecked"):
            return mask(x * y, w)
        if op == "Div":
            if y == 0:
                raise Panic("division by zero")
            return mask(int(x / y) if sg else x // y, w)
        if op == "Rem":
            if y == 0:
                raise Panic("remainder by zero")
            return mask(x - y * int(x / y) if sg else x % y, w)
        if op == "BitAnd":
            return mask(x & y, w)
        if op == "BitOr":
            return mask(x | y, w)
        if op == "BitXor":
            return mask(x ^ y, w)
        if op in ("Shl", "ShlUnchecked"):
            return mask(x << (y % w), w)
        if op in ("Shr", "ShrUnchecked"):
            return mask(x >> (y % w), w)
        if op in ("AddWithOverflow", "SubWithOverflow", "MulWithOverflow"):
            r = {"A": x + y, "S": x - y, "M": x * y}[op[0]]
            lo, hi = (-(1 << (w - 1)), (1 << (w - 1)) - 1) if sg else (0, (1 << w) - 1)
            return Tup([mask(r, w), not (lo <= r <= hi)])
        if op == "Cmp":
            return -1 if x < y else (1 if x > y else 0)
        raise Unsupported("binop " + op)
    # symbolic
    if (is_sym(x) and z3.is_bool(x)) or (is_sym(y) and z3.is_bool(y)) or isinstance(x, bool) or isinstance(y, bool):
        a, b = to_bool(x), to_bool(y)
        r = {"Eq": a == b, "Ne": a != b, "BitAnd": z3.And(a, b), "BitOr": z3.Or(a, b), "BitXor": z3.Xor(a, b)}.get(op)
        if r is None:
            raise Unsupported("symbolic bool op " + op)
        return r
    ws = x.size() if is_sym(x) else y.size()
    w = ws
    a, b = to_bv(x, w), to_bv(y, w)
    if is_sym(y) and is_sym(x) and x.size() != y.size():
        # shifts may have differently sized rhs
        if op in ("Shl", "Shr"):
            b = z3.ZeroExt(w - y.size(), y) if y.size() < w else z3.Extract(w - 1, 0, y)
        else:
            raise Unsupported("width mismatch in " + op)
    sg = ty in SIGNED
    if op == "Eq":
        return a == b
    if op == "Ne":
        return a != b
    if op == "Lt":
        return (a < b) if sg else z3.ULT(a, b)
    if op == "Le":
        return (a <= b) if sg else z3.ULE(a, b)
    if op == "Gt":
        return (a > b) if sg else z3.UGT(a, b)
    if op == "Ge":
        return (a >= b) if sg else z3.UGE(a, b)
    if op in ("Add", "AddUnchecked"):
        return a + b
    if op in ("Sub", "SubUnchecked"):
        return a - b
    if op in ("Mul", "MulUnchecked"):
        return a * b
    if op == "BitAnd":
        return a & b
    if op == "BitOr":
        return a | b
    if op == "BitXor":
        return a ^ b
    if op in ("Shl", "ShlUnchecked"):
        return a << b
    if op in ("Shr", "ShrUnchecked"):
        return (a >> b) if sg else z3.LShR(a, b)
    if op == "Div":
        return (a / b) if sg else z3.UDiv(a, b)
    if op == "Rem":
        return z3.SRem(a, b) if sg else z3.URem(a, b)
    if op in ("AddWithOverflow", "SubWithOverflow", "MulWithOverflow"):
        if op[0] == "A":
            r = a + b
            of = z3.Not(z3.BVAddNoOverflow(a, b, sg)) if not sg else z3.Or(z3.Not(z3.BVAddNoOverflow(a, b, True)), z3.Not(z3.BVAddNoUnderflow(a, b)))
        elif op[0] == "S":
            r = a - b
            of = z3.Not(z3.BVSubNoUnderflow(a, b, sg)) if not sg else z3.Or(z3.Not(z3.BVSubNoOverflow(a, b)), z3.Not(z3.BVSubNoUnderflow(a, b, True)))
        else:
            r = a * b
            of = z3.Not(z3.BVMulNoOverflow(a, b, sg)) if not sg else z3.Or(z3.Not(z3.BVMulNoOverflow(a, b, True)), z3.Not(z3.BVMulNoUnderflow(a, b)))
        return Tup([r, of])
    raise Unsupported("symbolic binop " + op)
