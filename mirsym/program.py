"""Program = parsed MIR of one crate + callee resolution + constants + ADT construction."""
import os, re, glob, z3
from .mirparse import (parse_file, parse_line, parse_rvalue, parse_operand, parse_place, split_top,
                       Unsupported, Stmt)
from .interp import (Struct, Enum, Tup, Arr, Ptr, Closure, FnPtr, Str, UNIT, Panic, Machine, is_sym, copy_val)

BUILTIN_ENUMS = {
    "Option": ["None", "Some"],
    "Result": ["Ok", "Err"],
    "Cow": ["Borrowed", "Owned"],
    "SetResult": ["FromSet", "NotFromSet"],
    "ControlFlow": ["Continue", "Break"],
}


def strip_generics(s):
    """remove ::<...> turbofish groups and <...> generic argument lists after identifiers"""
    out = []
    i, n = 0, len(s)
    while i < n:
        if s.startswith("::<impl ", i):
            j = s.index(">", i)
            out.append(s[i:j + 1])
            i = j + 1
            continue
        if s.startswith("::<", i):
            # skip balanced
            d = 0
            j = i + 2
            while j < n:
                if s[j] == "<":
                    d += 1
                elif s[j] == ">" and s[j - 1] != "-":
                    d -= 1
                    if d == 0:
                        break
                j += 1
            i = j + 1
            continue
        out.append(s[i])
        i += 1
    return "".join(out)


def head_type(t):
    """`&'a mut Foo<Bar>` -> Foo ; `std::cell::Ref<'_, X>` -> Ref"""
    t = t.strip()
    t = re.sub(r"^&('[a-z_]+ )?(mut )?", "", t)
    if t.startswith("["):
        return "[T]"
    if t.startswith("<"):
        # associated type path: <Sink as TreeSink>::ElemName<'_>  ->  ElemName
        d = 0
        for j, ch in enumerate(t):
            if ch == "<":
                d += 1
            elif ch == ">" and t[j - 1] != "-":
                d -= 1
                if d == 0:
                    break
        t = t[j + 1:].lstrip(":")
    t = re.sub(r"<.*$", "", t, flags=re.S)
    return t.split("::")[-1].strip()


def norm_callee(c):
    """normalise a call-site callee to a key"""
    c = c.strip()
    # inherent method of a crate type called through its impl block:  rules::<impl TreeBuilder<Handle, Sink>>::step
    mm = re.match(r"^((?:[a-z_][a-z0-9_]*::)*)<impl ([A-Z][A-Za-z0-9_]*)", c)
    if mm and not c.startswith(("core::", "std::", "alloc::")):
        d, j = 0, len(mm.group(1))
        for j in range(len(mm.group(1)), len(c)):
            if c[j] == "<":
                d += 1
            elif c[j] == ">" and c[j - 1] != "-":
                d -= 1
                if d == 0:
                    break
        c = mm.group(2) + c[j + 1:]
    if c.startswith("<"):
        # <T as Trait>::name...
        d = 0
        for j, ch in enumerate(c):
            if ch == "<":
                d += 1
            elif ch == ">" and c[j - 1] != "-":
                d -= 1
                if d == 0:
                    break
        inner = c[1:j]
        rest = strip_generics(c[j + 1:])
        m = re.match(r"(.*) as (.*)$", inner, re.S)
        if m:
            return "<%s as %s>%s" % (head_type(m.group(1)), head_type(m.group(2)), rest)
        return "<%s>%s" % (head_type(inner), rest)
    c = strip_generics(c)
    c = re.sub(r"<impl \[[^\]]*\]>", "<impl [T]>", c)
    return c


class Program:
    def __init__(self, mir_path, src_root, crate_dir, models):
        """mir_path: textual MIR dump; src_root: /repo; crate_dir: e.g. html5ever"""
        self.src_root = src_root
        self.crate_dir = crate_dir
        self.mir_path = mir_path
        self.fns = parse_file(mir_path)
        self.models = models            # normalised callee -> python fn(machine, args, callee)
        self._blocks = {}
        self.enums = {}                 # name -> list of (variants list, source path)
        self.structs = {}               # name -> list of field names
        self._impl_cache = {}
        self.by_key = {}                # 'Type::method' | '<Type as Trait>::method' | 'free' -> Fn
        self.closures = {}              # '{closure@...}' -> Fn
        self.sink = None
        self.statics = {}
        self._scan_sources()
        self._index()

    # ---- sources: enum variant order, impl self types ---------------------------------------
    def _scan_sources(self):
        pats = [os.path.join(self.src_root, self.crate_dir, "src", "**", "*.rs"), os.path.join(self.src_root, self.crate_dir, "*.rs"),
                os.path.join(self.src_root, "markup5ever", "**", "*.rs")]
        for pat in pats:
            for p in glob.glob(pat, recursive=True):
                try:
                    txt = open(p, errors="replace").read()
                except OSError:
                    continue
                txt_nc = re.sub(r"//[^\n]*", "", txt)
                for m in re.finditer(r"\benum\s+([A-Za-z_][A-Za-z0-9_]*)\s*(<[^{]*>)?\s*\{", txt_nc):
                    body = self._balanced(txt_nc, m.end() - 1)
                    vs = []
                    for part in split_top(body):
                        part = re.sub(r"#\[[^\]]*\]", "", part).strip()
                        mm = re.match(r"([A-Za-z_][A-Za-z0-9_]*)", part)
                        if mm:
                            vs.append(mm.group(1))
                    self.enums.setdefault(m.group(1), []).append((vs, p))
        for k, v in BUILTIN_ENUMS.items():
            self.enums.setdefault(k, []).append((v, "<builtin>"))

    @staticmethod
    def _balanced(txt, i):
        d = 0
        j = i
        while j < len(txt):
            if txt[j] == "{":
                d += 1
            elif txt[j] == "}":
                d -= 1
                if d == 0:
                    return txt[i + 1:j]
            j += 1
        return txt[i + 1:]

    def impl_self(self, loc):
        """'html5ever/src/tokenizer/mod.rs:186:1: 186:38' -> (SelfType, Trait or None)"""
        if loc in self._impl_cache:
            return self._impl_cache[loc]
        m = re.match(r"(.*?):(\d+):(\d+): (\d+):(\d+)", loc)
        r = (None, None)
        if m:
            p = os.path.join(self.src_root, m.group(1))
            try:
                lines = open(p, errors="replace").read().split("\n")
                l0, c0, l1, c1 = int(m.group(2)), int(m.group(3)), int(m.group(4)), int(m.group(5))
                if l0 == l1:
                    txt = lines[l0 - 1][c0 - 1:c1 - 1]
                else:
                    txt = lines[l0 - 1][c0 - 1:] + " " + " ".join(lines[l0:l1 - 1]) + " " + lines[l1 - 1][:c1 - 1]
                if txt.startswith("impl"):
                    t = txt[4:].strip()
                    if t.startswith("<"):
                        d = 0
                        for j, ch in enumerate(t):
                            if ch == "<":
                                d += 1
                            elif ch == ">":
                                d -= 1
                                if d == 0:
                                    break
                        t = t[j + 1:].strip()
                    mm = re.match(r"(.*?)\s+for\s+(.*)$", t, re.S)
                    if mm:
                        r = (self._head(mm.group(2)), self._head(mm.group(1)))
                    else:
                        r = (self._head(t), None)
                else:
                    # derive(...) location: find the item that follows
                    for k in range(l0 - 1, min(l0 + 12, len(lines))):
                        mm = re.search(r"\b(?:struct|enum)\s+([A-Za-z_][A-Za-z0-9_]*)", lines[k])
                        if mm:
                            tr = txt.strip()
                            r = (mm.group(1), tr)
                            break
            except OSError:
                pass
        self._impl_cache[loc] = r
        return r

    @staticmethod
    def _head(t):
        t = t.strip()
        t = re.sub(r"\s*where.*$", "", t, flags=re.S)
        t = re.sub(r"<.*$", "", t, flags=re.S)
        return t.split("::")[-1].strip()

    def _index(self):
        for name, fn in self.fns.items():
            if getattr(fn, "is_const", False):
                continue
            m = re.search(r"\{closure#\d+\}", name)
            if m and fn.args:
                cm = re.match(r"&?(mut )?(\{closure@[^}]*\})", fn.args[0][1])
                if cm:
                    self.closures[cm.group(2)] = fn
                continue
            last = name.split("::")[-1]
            if fn.impl_loc:
                # a fn item nested in a method keeps the method in its key:  Type::method::nested
                tail = name.split(fn.impl_loc + ">::", 1)
                if len(tail) == 2 and "::" in tail[1]:
                    last = tail[1]
                st, tr = self.impl_self(fn.impl_loc)
                if st:
                    if tr:
                        self.by_key["<%s as %s>::%s" % (st, tr, last)] = fn
                    else:
                        self.by_key["%s::%s" % (st, last)] = fn
                        self.by_key.setdefault("<%s>::%s" % (st, last), fn)
                        # also under the module path printed at call sites (disambiguates same-named types in different modules)
                        mod = name.split("::<impl at")[0]
                        if mod and mod != name:
                            self.by_key["%s::%s::%s" % (mod, st, last)] = fn
            else:
                self.by_key.setdefault(last, fn)
                self.by_key[name] = fn

    # ---- blocks --------------------------------------------------------------------------------
    def fn(self, key):
        f = self.by_key.get(key) or self.fns.get(key)
        if f is None:
            raise Unsupported("no MIR for function " + key)
        return f

    def block(self, fn, bb):
        k = (fn.name, bb)
        b = self._blocks.get(k)
        if b is None:
            if bb in fn.cleanup:
                raise Unsupported("cleanup block reached")
            b = []
            for raw in fn.blocks[bb]:
                st = parse_line(raw)
                if st.kind == "assign":
                    st.a = (parse_place(st.a[0]), parse_rvalue(st.a[1]))
                elif st.kind == "call":
                    dest, callee, args, ret = st.a
                    st.a = (parse_place(dest), callee, [parse_operand(x) for x in split_top(args)], ret)
                elif st.kind == "switch":
                    st.a = (parse_operand(st.a[0]), st.a[1], st.a[2])
                elif st.kind == "drop":
                    st.a = (parse_place(st.a[0]), st.a[1])
                elif st.kind == "assert":
                    st.a = (parse_operand(st.a[0]), st.a[1], st.a[2], st.a[3])
                b.append(st)
            self._blocks[k] = b
        return b

    # ---- dispatch ------------------------------------------------------------------------------
    def dispatch(self, m, fr, callee, args):
        key = norm_callee(callee)
        mod = self.models.get(key)
        if mod is None and not key.startswith("<"):
            parts = key.split("::")
            if len(parts) > 2:
                mod = self.models.get("::".join(parts[-2:]))
        if mod is not None:
            return mod(m, args, callee)
        f = self.by_key.get(key)
        if f is None:
            # path-qualified free function or Type::method with module prefix
            parts = key.split("::")
            for n in (2, 1):
                if len(parts) >= n:
                    f = self.by_key.get("::".join(parts[-n:]))
                    if f is not None and (n == 2 or not f.impl_loc):
                        break
                    f = None
        if f is None:
            short = re.sub(r"^<(\w+) as (\w+)>", r"<\1 as \2>", key)
            mod = self.models.get(short)
            if mod is not None:
                return mod(m, args, callee)
            if (key.startswith("<{closure@") or re.match(r"^<[A-Za-z_&' ]+ as Fn(Mut|Once)?>::", key)) and key.split("::")[-1] in ("call", "call_mut", "call_once"):
                return self.models["<F as Fn>::call"](m, args, callee)
            # generic fallbacks by method name
            g = self.models.get("*::" + key.split("::")[-1])
            if g is not None:
                return g(m, args, callee)
            raise Unsupported("callee %s  (key %s)" % (callee, key))
        return m.run_fn(f, args)

    def call_closure(self, m, clo, args):
        if isinstance(clo, Ptr):
            inner = clo.load()
            if not isinstance(inner, Closure):
                # &&closure, &fn-item, &dyn Fn: peel one reference
                return self.call_closure(m, inner, args)
            f = self.closures.get(inner.name)
            if f is None:
                raise Unsupported("closure " + inner.name)
            if not f.args[0][1].startswith("&"):
                return m.run_fn(f, [inner] + list(args))
            return m.run_fn(f, [clo] + list(args))
        if isinstance(clo, Closure):
            f = self.closures.get(clo.name)
            if f is None:
                raise Unsupported("closure " + clo.name)
            a0 = clo
            if f.args[0][1].startswith("&"):
                a0 = Ptr([clo], 0)
            # closures take their arguments as separate MIR arguments
            return m.run_fn(f, [a0] + list(args))
        if isinstance(clo, FnPtr):
            last = strip_generics(clo.name).split("::")[-1].strip()
            if any(last in c[0] for cs in self.enums.values() for c in cs):
                return self.make_adt(m, clo.name, list(args), None)
            return self.dispatch(m, None, clo.name, list(args))
        raise Unsupported("call of non-closure %r" % (clo,))

    # ---- constants ---------------------------------------------------------------------------------
    def const(self, m, c):
        c = c.strip()
        if c == "true":
            return True
        if c == "false":
            return False
        if c == "()":
            return UNIT
        mm = re.match(r"^(-?\d+)_([a-z]+\d*)(?: is .*)?$", c)
        if mm:
            from .interp import INT_W, mask
            return mask(int(mm.group(1)), INT_W[mm.group(2)])
        if c.startswith("'"):
            return ord(_unescape(c[1:-1]))
        if c.startswith('"'):
            return Str([ord(ch) for ch in _unescape(c[1:-1])])
        if c.startswith('b"'):
            return Str(list(_unescape_bytes(c[2:-1])), True)
        mm = re.match(r"^\{(alloc\d+): (.*)\}$", c, re.S)
        if mm:
            from .models import Opaque, some, none
            from .mirparse import ALLOCS
            ty = mm.group(2).strip()
            ent = ALLOCS.get(self.mir_path, {}).get(mm.group(1))
            m2 = re.match(r"^&\[(?:std::option::)?Option<char>; (\d+)\]$", ty)
            if m2 and ent and isinstance(ent[1], list) and len(ent[1]) == 4 * int(m2.group(1)):
                key = ("alloc", mm.group(1))
                if key not in self.statics:
                    b = ent[1]
                    vals = []
                    for i in range(int(m2.group(1))):
                        w = b[4 * i] | b[4 * i + 1] << 8 | b[4 * i + 2] << 16 | b[4 * i + 3] << 24
                        vals.append(some(w) if w <= 0x10FFFF else none())
                    self.statics[key] = Ptr([Arr(vals)], 0)
                return self.statics[key]
            allocs = ALLOCS.get(self.mir_path, {})

            def fat(items, k):
                """k-th (pointer, length) pair of an allocation -> (target alloc name, length)"""
                it = items[9 * k: 9 * k + 9]
                if len(it) != 9 or not isinstance(it[0], tuple) or not all(isinstance(b, int) for b in it[1:]):
                    return None
                return it[0][1], int.from_bytes(bytes(it[1:]), "little")

            def str_at(name, n):
                tgt = allocs.get(name)
                if tgt and isinstance(tgt[1], list) and len(tgt[1]) >= n and all(isinstance(b, int) for b in tgt[1][:n]):
                    return Str([ord(ch) for ch in bytes(tgt[1][:n]).decode("utf-8")])
                return None
            if ent and isinstance(ent[1], list):
                key = ("alloc", mm.group(1), ty)
                if key in self.statics:
                    return self.statics[key]
                val = None
                fp = fat(ent[1], 0)
                if ty == "&&str" and fp:
                    s0 = str_at(*fp)
                    val = Ptr([s0], 0) if s0 is not None else None
                elif ty in ("&&[&str]", "&&'static [&'static str]") and fp:
                    tgt = allocs.get(fp[0])
                    if tgt and isinstance(tgt[1], list):
                        strs = []
                        for k in range(fp[1]):
                            f2 = fat(tgt[1], k)
                            s2 = str_at(*f2) if f2 else None
                            if s2 is None:
                                strs = None
                                break
                            strs.append(s2)
                        if strs is not None:
                            val = Ptr([Ptr([Arr(strs)], 0)], 0)
                if val is not None:
                    self.statics[key] = val
                    return val
            return Opaque("static", (ty,))
        if c.startswith("ZeroSized: "):
            z = c[len("ZeroSized: "):].strip()
            if z.startswith("{closure@"):
                return Closure(z, [])
            return FnPtr(z)
        mm = re.search(r"\bATOM_[A-Z]+_((?:_[0-9A-F]{2})*)\b", c)
        if mm:
            from .models import Atom
            hx = [h for h in mm.group(1).split("_") if h]
            return Atom([ord(ch) for ch in bytes(int(h, 16) for h in hx).decode("utf-8")])
        if "promoted[" in c or c in self.fns:
            return self.eval_const_fn(m, c)
        if strip_generics(c) in self.fns and getattr(self.fns[strip_generics(c)], "is_const", False):
            return self.eval_const_fn(m, strip_generics(c))
        # named constants of the crate (matched on the last path segment)
        last = strip_generics(c).split("::")[-1].strip()
        if re.match(r"^[A-Z][A-Z0-9_]+$", last):
            cands = [f for n, f in self.fns.items() if getattr(f, "is_const", False) and n.split("::")[-1] == last and "promoted" not in n]
            if len(cands) == 1:
                return self.eval_const_fn(m, cands[0].name)
        # ZST fn items / unit structs / associated consts
        key = norm_callee(c)
        f = self.fns.get(c) or self.by_const(key)
        if f is not None:
            return self.eval_const_fn(m, f.name)
        mod = self.models.get("const " + key)
        if mod is not None:
            return mod(m, [], c)
        # enum unit variants / unit structs appear as paths
        try:
            return self.make_adt(m, c, [], None)
        except Unsupported:
            pass
        return FnPtr(c)

    def by_const(self, key):
        last2 = "::".join(key.split("::")[-2:])
        for name, f in self.fns.items():
            if getattr(f, "is_const", False):
                n2 = "::".join(name.split("::")[-1:])
                if name.endswith("::" + key.split("::")[-1]) and ("promoted" not in name):
                    st = self.impl_self(f.impl_loc)[0] if f.impl_loc else None
                    if st is None or st == key.split("::")[-2] if len(key.split("::")) > 1 else True:
                        return f
        return None

    def eval_const_fn(self, m, name):
        key = name
        f = self.fns.get(key)
        if f is None and "promoted[" in name and getattr(m, "cur_fn", None) is not None:
            f = self.fns.get(m.cur_fn.name + "::" + name.split("::")[-1])
        if f is None:
            # call sites print promoted names by type path; definitions by impl location: match on suffix
            suffix = re.sub(r"^.*?::(\w+(::\{closure#\d+\})*::promoted\[\d+\])$", r"\1", strip_generics(name))
            cands = [n for n in self.fns if n.endswith("::" + suffix) or n == suffix]
            if len(cands) != 1:
                raise Unsupported("promoted const %s (candidates %d)" % (name, len(cands)))
            f = self.fns[cands[0]]
        if f.name in self.statics:
            return self.statics[f.name]
        if getattr(f, "const_expr", None) is not None:
            v = self.const(m, f.const_expr)
            self.statics[f.name] = v
            return v
        sub = Machine(self, [])
        v = sub.run_fn(f, [])
        self.statics[f.name] = v
        return v

    # ---- ADT construction ------------------------------------------------------------------------------
    def make_adt(self, m, path, vals, names):
        p = strip_generics(path).strip()
        mm = re.search(r"\bATOM_[A-Z]+_((?:_[0-9A-F]{2})*)$", p)
        if mm and not vals:
            from .models import Atom
            hx = [h for h in mm.group(1).split("_") if h]
            return Atom([ord(ch) for ch in bytes(int(h, 16) for h in hx).decode("utf-8")])
        if p.startswith("<"):
            p = norm_callee(path)
        segs = p.split("::")
        last = segs[-1].strip()
        if len(segs) >= 2:
            en = segs[-2].strip()
            en = re.sub(r"<.*$", "", en)
            cands = self.enums.get(en)
            if cands:
                hit = [c for c in cands if last in c[0]]
                if len(hit) > 1:
                    # disambiguate by module hint in the path
                    hint = [c for c in hit if any(s and s in c[1] for s in segs[:-2])]
                    hit = hint or hit
                if hit:
                    return Enum(en, last, hit[0][0].index(last), vals)
        if last in ("None",) and not vals:
            return Enum("Option", "None", 0, [])
        # bare variant name (re-exported variants such as FromSet / StartTag / Public)
        owners = [(en, c) for en, cs in self.enums.items() for c in cs if last in c[0]]
        if len(segs) == 1 and owners and names is None:
            uniq = {en for en, _ in owners}
            if len(uniq) == 1 or any(en in BUILTIN_ENUMS for en, _ in owners):
                en, c = sorted(owners, key=lambda o: o[0] not in BUILTIN_ENUMS)[0]
                return Enum(en, last, c[0].index(last), vals)
            raise Unsupported("ambiguous bare variant %s: %s" % (last, sorted(uniq)))
        if not re.match(r"^[A-Z]", last):
            raise Unsupported("adt path " + path)
        return Struct(last, vals)

    # ---- hooks for model types ---------------------------------------------------------------------------
    def drop(self, m, v):
        d = self.models.get("drop")
        if d:
            d(m, [v], "drop")

    def deref_special(self, m, v):
        h = self.models.get("deref_special")
        if h:
            return h(m, v)
        raise Unsupported("deref of %r" % (v,))

    def field_special(self, m, v, n, ty):
        h = self.models.get("field_special")
        if h:
            return h(m, v, n, ty)
        raise Unsupported("field %d of %r" % (n, v))

    def index_special(self, m, v):
        h = self.models.get("index_special")
        if h:
            return h(m, v)
        raise Unsupported("index into %r" % (v,))

    def discr_special(self, m, v):
        h = self.models.get("discr_special")
        if h:
            return h(m, v)
        raise Unsupported("discriminant of %r" % (v,))

    def len_special(self, m, v):
        raise Unsupported("Len of %r" % (v,))


def _unescape(s):
    out = []
    i = 0
    while i < len(s):
        ch = s[i]
        if ch == "\\":
            n = s[i + 1]
            if n == "n":
                out.append("\n")
            elif n == "r":
                out.append("\r")
            elif n == "t":
                out.append("\t")
            elif n == "0":
                out.append("\0")
            elif n == "\\":
                out.append("\\")
            elif n == "'":
                out.append("'")
            elif n == '"':
                out.append('"')
            elif n == "x":
                out.append(chr(int(s[i + 2:i + 4], 16)))
                i += 4
                continue
            elif n == "u":
                j = s.index("}", i)
                out.append(chr(int(s[i + 3:j], 16)))
                i = j + 1
                continue
            else:
                out.append(n)
            i += 2
        else:
            out.append(ch)
            i += 1
    return "".join(out)


def _unescape_bytes(s):
    return bytes(ord(c) for c in _unescape(s))
