"""HTML parser harness for engine M: the tokenizer and the tree builder, both interpreted from MIR and composed the way
html5ever::driver composes them (the tree builder is the tokenizer's sink), over the model DOM sink of domsink.py."""
import z3
from . import models as MD
from .models import Tendril, BufQ, Atom, VecM, some, none, deref
from .interp import Struct, Enum, Ptr, UNIT, Panic, PathEnd, Machine
from .mirparse import Unsupported
from . import domsink


class Opts:
    def __init__(self, scripting=True, iframe_srcdoc=False, quirks="NoQuirks", exact_errors=False, drop_doctype=False,
                 context=None, context_attrs=(), form=False, ctx_scripting=True, chunks=None, script_detach=False, detach_plan=None, rcdom=False):
        self.scripting, self.iframe_srcdoc, self.quirks, self.exact_errors = scripting, iframe_srcdoc, quirks, exact_errors
        self.drop_doctype, self.context, self.context_attrs, self.form, self.chunks = drop_doctype, context, context_attrs, form, chunks
        self.ctx_scripting = ctx_scripting
        self.script_detach, self.detach_plan, self.rcdom = script_detach, detach_plan, rcdom


def qualname(ns, local):
    return Struct("QualName", [none(), Atom([ord(c) for c in ns]), Atom([ord(c) for c in local] if isinstance(local, str) else list(local))])


def run(m, chars, opts):
    """one path: parse `chars` (list of code points / symbolic characters) as a document or fragment; -> sink state"""
    prog = m.prog
    mk = lambda path, f=(): prog.make_adt(m, path, list(f), None)
    tbo = Struct("TreeBuilderOpts", [opts.exact_errors, opts.scripting, opts.iframe_srcdoc, opts.drop_doctype, mk("QuirksMode::" + opts.quirks)])
    sink = Struct("Sink", [])
    st = domsink.state(m)
    if opts.rcdom:
        from . import rcdomtee
        rcdomtee.activate(m)
    init_state = none()
    if opts.context is not None:
        ns, local = opts.context
        attrs = VecM([Struct("Attribute", [qualname("", k), Tendril([ord(c) for c in v])]) for k, v in opts.context_attrs])
        ctx = MD.M["create_element"](m, [Ptr([sink], 0), qualname(ns, local), attrs], "create_element")
        form = some(MD.M["create_element"](m, [Ptr([sink], 0), qualname("http://www.w3.org/1999/xhtml", "form"), VecM([])], "create_element")) if opts.form else none()
        st["context"] = ctx
        tb = m.call("TreeBuilder::new_for_fragment", [sink, ctx, form, tbo])
        init_state = some(m.call("TreeBuilder::tokenizer_state_for_context_elem", [Ptr([tb], 0), opts.ctx_scripting]))
        last = none()
    else:
        tb = m.call("TreeBuilder::new", [sink, tbo])
        last = none()
    tko = Struct("TokenizerOpts", [opts.exact_errors, True, False, init_state, last])
    tk = m.call("Tokenizer::new", [tb, tko])
    tkp = Ptr([tk], 0)
    q = BufQ()
    m.notes["q"] = q
    qp = Ptr([q], 0)
    chunks, pos = [], 0
    for n in (opts.chunks or [len(chars)]):
        chunks.append(chars[pos:pos + n])
        pos += n
    results = []
    for ch in chunks:
        if ch:
            q.bufs.append(Tendril(list(ch)))
        guard = 0
        while True:
            res = m.call("Tokenizer::feed", [tkp, qp])
            results.append(res.variant)
            if res.variant == "EncodingIndicator":
                lab = deref(res.f[0])
                metas = [h for h in sorted(st["nodes"]) if st["nodes"][h]["kind"] == "element" and MD.seq_eq(st["nodes"][h]["name"].f[2].ch, [ord(c) for c in "meta"]) is True]
                m.notes.setdefault("indicators", []).append((list(lab.ch), bool(metas) and st["nodes"][metas[-1]]["parent"] is not None))
            guard += 1
            if res.variant == "Done" or guard > 64:
                break
            # Script / EncodingIndicator: the encoding is kept and parsing resumes.  The script leaves the document alone,
            # or (script_detach) removes one connected element from its parent before the collection runs
            if res.variant == "Script":
                k = m.notes["script_pauses"] = m.notes.get("script_pauses", 0) + 1
                els = [h for h in sorted(st["nodes"]) if st["nodes"][h]["kind"] == "element"]
                pick = None
                if opts.detach_plan is not None:
                    for (pk, ei) in opts.detach_plan:
                        if pk == k and ei < len(els):
                            pick = els[ei]
                elif opts.script_detach:
                    cands = [h for h in els if st["nodes"][h]["parent"] is not None]
                    pick = m.choose([(None, True)] + [(h, True) for h in cands], "script detaches an element")
                if pick is not None:
                    domsink.detach(st, pick)
                    m.notes.setdefault("detached", []).append([k, els.index(pick)])
            _pause(m, tk, res.variant + " result")
        _pause(m, tk, "chunk boundary")
    m.call("Tokenizer::end", [tkp])
    st["feed_results"] = results
    st["tb"] = tk.f[1] if isinstance(tk.f[1], Struct) and tk.f[1].ty == "TreeBuilder" else tb
    return st


PAUSE_HOOK = None


def _pause(m, tk, kind):
    traced = _trace(m, tk)
    m.notes.setdefault("pauses", []).append((kind, traced))
    if PAUSE_HOOK is not None:
        PAUSE_HOOK(m, kind, traced)


def _trace(m, tk):
    """TreeBuilder::trace_handles at a suspension point -> list of handles reported"""
    f = m.prog.by_key.get("TreeBuilder::trace_handles")
    if f is None:
        return None
    m.notes["traced"] = []
    try:
        tb = [x for x in tk.f if isinstance(x, Struct) and x.ty == "TreeBuilder"][0]
        m.run_fn(f, [Ptr([tb], 0), Ptr([Struct("Tracer", [])], 0)])
    except Unsupported:
        return None
    return list(m.notes["traced"])
