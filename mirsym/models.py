"""Native models of the library types the tokenizers use (everything that is not MIR of the
crate under analysis).  Each model is a few lines; the list of models that a run actually
called is written to the evidence file.  The Tendril and BufferQueue models implement the
"independent owned string" / "one flat character stream" semantics that C11 and C13 prove
for the real code with engine K."""
import re, z3
from .interp import (Struct, Enum, Tup, Arr, Ptr, Closure, FnPtr, Str, UNIT, Panic, is_sym, copy_val, to_bool, to_bv, mask)
from .mirparse import Unsupported

M = {}
USED = set()


def model(*names):
    def deco(f):
        def wrapped(m, args, callee, _f=f, _n=names[0]):
            USED.add(_n)
            return _f(m, args, callee)
        for n in names:
            M[n] = wrapped
        return f
    return deco


def some(v):
    return Enum("Option", "Some", 1, [v])


def none():
    return Enum("Option", "None", 0, [])


def deref(v):
    """follow references / guards down to the value"""
    while True:
        if isinstance(v, Ptr):
            v = v.load()
        elif isinstance(v, Guard):
            v = v.p.load()
        else:
            return v


def deref_ptr(v):
    """follow reference-to-reference chains down to the last Ptr (the location of the value)"""
    while isinstance(v, Ptr):
        inner = v.load()
        if isinstance(inner, Ptr):
            v = inner
        elif isinstance(inner, Guard):
            v = inner.p
        else:
            return v
    if isinstance(v, Guard):
        return deref_ptr(v.p)
    raise Unsupported("expected a reference, got %r" % (v,))


# ---------------------------------------------------------------- char helpers
def utf8_len_concrete(c):
    return 1 if c < 0x80 else 2 if c < 0x800 else 3 if c < 0x10000 else 4


CHAR_CLASS = {}   # z3 variable name -> utf-8 length class (1..4), registered by the harness


def char_len(c):
    if isinstance(c, int):
        return utf8_len_concrete(c)
    c = z3.simplify(c)
    if z3.is_bv_value(c):
        return utf8_len_concrete(c.as_long())
    seen = set()
    stack = [c]
    while stack:
        e = stack.pop()
        if e.get_id() in seen:
            continue
        seen.add(e.get_id())
        if z3.is_const(e) and e.decl().kind() == z3.Z3_OP_UNINTERPRETED:
            k = CHAR_CLASS.get(e.decl().name())
            if k:
                return k
        stack.extend(e.children())
    raise Unsupported("byte length of a character whose UTF-8 class is unknown: %s" % c)


def char_bytes(c):
    """UTF-8 bytes of a character value (z3 8-bit terms or ints)"""
    n = char_len(c)
    if isinstance(c, int):
        return list(chr(c).encode("utf-8", "surrogatepass"))
    ex = lambda hi, lo: z3.Extract(hi, lo, c)
    if n == 1:
        return [ex(7, 0)]
    if n == 2:
        return [z3.Concat(z3.BitVecVal(0b110, 3), ex(10, 6)), z3.Concat(z3.BitVecVal(0b10, 2), ex(5, 0))]
    if n == 3:
        return [z3.Concat(z3.BitVecVal(0b1110, 4), ex(15, 12)), z3.Concat(z3.BitVecVal(0b10, 2), ex(11, 6)),
                z3.Concat(z3.BitVecVal(0b10, 2), ex(5, 0))]
    return [z3.Concat(z3.BitVecVal(0b11110, 5), ex(20, 18)), z3.Concat(z3.BitVecVal(0b10, 2), ex(17, 12)),
            z3.Concat(z3.BitVecVal(0b10, 2), ex(11, 6)), z3.Concat(z3.BitVecVal(0b10, 2), ex(5, 0))]


def ch_eq(a, b):
    if isinstance(a, int) and isinstance(b, int):
        return a == b
    return to_bv(a, 32) == to_bv(b, 32)


def seq_eq(xs, ys):
    """equality of two character sequences as a Python bool or z3 Bool"""
    if len(xs) != len(ys):
        return False
    conds = []
    for a, b in zip(xs, ys):
        e = ch_eq(a, b)
        if e is False:
            return False
        if e is not True:
            conds.append(e)
    if not conds:
        return True
    return z3.And(conds) if len(conds) > 1 else conds[0]


def in_range(c, lo, hi):
    if isinstance(c, int):
        return lo <= c <= hi
    return z3.And(z3.UGE(c, lo), z3.ULE(c, hi))


def b_or(*xs):
    if any(x is True for x in xs):
        return True
    ys = [x for x in xs if x is not False]
    if not ys:
        return False
    return z3.Or(ys) if len(ys) > 1 else ys[0]


def b_and(*xs):
    if any(x is False for x in xs):
        return False
    ys = [x for x in xs if x is not True]
    if not ys:
        return True
    return z3.And(ys) if len(ys) > 1 else ys[0]


def b_not(x):
    if isinstance(x, bool):
        return not x
    return z3.Not(x)


def ite(c, a, b, w=32):
    if isinstance(c, bool):
        return a if c else b
    return z3.If(c, to_bv(a, w), to_bv(b, w))


# ---------------------------------------------------------------- model types
class Guard:
    """std::cell::Ref / RefMut"""
    __slots__ = ("p", "cellkey", "mut", "alive")

    def __init__(self, p, cellkey, mut):
        self.p, self.cellkey, self.mut, self.alive = p, cellkey, mut, True


class Tendril:
    __slots__ = ("ch",)

    def __init__(self, ch=()):
        self.ch = list(ch)

    def __repr__(self):
        from .interp import show_chars
        return "Tendril(%s)" % show_chars(self.ch)


class VecM:
    __slots__ = ("v",)

    def __init__(self, v=()):
        self.v = list(v)


class Atom:
    __slots__ = ("ch", "static")

    def __init__(self, ch, static=None):
        self.ch = tuple(ch)
        self.static = static

    def __repr__(self):
        from .interp import show_chars
        return "Atom(%s)" % show_chars(self.ch)


class BufQ:
    __slots__ = ("bufs", "consumed")

    def __init__(self):
        self.bufs = []
        self.consumed = 0     # characters handed out so far (for the line-number oracle)


class Iter:
    __slots__ = ("seq", "i", "kind")

    def __init__(self, seq, kind):
        self.seq, self.i, self.kind = seq, 0, kind


class Opaque:
    __slots__ = ("what", "args")

    def __init__(self, what, args=()):
        self.what, self.args = what, args

    def __repr__(self):
        return "<%s>" % self.what


# ---------------------------------------------------------------- borrow tracking
def borrow_state(m):
    return m.notes.setdefault("borrows", {})


def cell_key(p):
    return (id(p.c), p.k)


@model("RefCell::borrow")
def refcell_borrow(m, a, c):
    p = deref_ptr(a[0])
    k = cell_key(p)
    st = borrow_state(m)
    r, w = st.get(k, (0, 0))
    if w:
        raise Panic("RefCell already mutably borrowed (BorrowError)")
    st[k] = (r + 1, w)
    return Guard(p, k, False)


@model("RefCell::borrow_mut")
def refcell_borrow_mut(m, a, c):
    p = deref_ptr(a[0])
    k = cell_key(p)
    st = borrow_state(m)
    r, w = st.get(k, (0, 0))
    if r or w:
        raise Panic("RefCell already borrowed (BorrowMutError)")
    st[k] = (r, 1)
    return Guard(p, k, True)


def release(m, g):
    if not g.alive:
        return
    g.alive = False
    if g.cellkey is None:
        return
    st = borrow_state(m)
    r, w = st.get(g.cellkey, (0, 0))
    st[g.cellkey] = (r, 0) if g.mut else (max(0, r - 1), w)


@model("drop")
def drop_hook(m, a, c):
    v = a[0]
    if isinstance(v, Guard):
        release(m, v)
    elif isinstance(v, (Enum, Struct, Tup)):
        for x in v.f:
            if isinstance(x, (Guard, Enum, Struct, Tup)):
                drop_hook(m, [x], c)
    return UNIT


@model("std::mem::drop", "mem::drop", "drop_in_place")
def mem_drop(m, a, c):
    drop_hook(m, [a[0]], c)
    return UNIT


@model("<Ref as Deref>::deref", "<RefMut as Deref>::deref", "<RefMut as DerefMut>::deref_mut")
def guard_deref(m, a, c):
    g = deref(a[0]) if not isinstance(a[0], Guard) else a[0]
    if isinstance(a[0], Ptr):
        g = a[0].load()
        while isinstance(g, Ptr):
            g = g.load()
    if not isinstance(g, Guard):
        raise Unsupported("deref of non-guard %r" % (g,))
    return g.p


@model("RefMut::map", "Ref::map")
def guard_map(m, a, c):
    g, clo = a
    p = m.prog.call_closure(m, clo, [g.p])
    ng = Guard(p, g.cellkey, g.mut)
    g.alive = False
    return ng


@model("RefCell::new", "Cell::new")
def cell_new(m, a, c):
    return a[0]


@model("Cell::get")
def cell_get(m, a, c):
    return copy_val(deref_ptr(a[0]).load())


@model("Cell::set")
def cell_set(m, a, c):
    deref_ptr(a[0]).store(a[1])
    return UNIT


@model("Cell::replace", "RefCell::replace", "std::mem::replace", "mem::replace")
def cell_replace(m, a, c):
    p = deref_ptr(a[0])
    old = p.load()
    p.store(a[1])
    return old


def default_like(m, v, callee):
    if isinstance(v, Tendril):
        return Tendril()
    if isinstance(v, VecM):
        return VecM()
    if isinstance(v, Enum) and v.ty == "Option":
        return none()
    if isinstance(v, bool):
        return False
    if isinstance(v, int):
        return 0
    if isinstance(v, Struct):
        f = m.prog.by_key.get("<%s as Default>::default" % v.ty)
        if f is not None:
            return m.run_fn(f, [])
    raise Unsupported("Default for %r (%s)" % (v, callee))


@model("std::mem::take", "mem::take", "Cell::take", "RefCell::take")
def mem_take(m, a, c):
    p = deref_ptr(a[0])
    old = p.load()
    p.store(default_like(m, old, c))
    return old


@model("Option::take")
def option_take(m, a, c):
    p = deref_ptr(a[0])
    old = p.load()
    p.store(none())
    return old


# ---------------------------------------------------------------- Option / Result
def is_some(v):
    return isinstance(v, Enum) and v.variant == "Some"


@model("Option::is_some")
def opt_is_some(m, a, c):
    return is_some(deref(a[0]))


@model("Option::is_none")
def opt_is_none(m, a, c):
    return not is_some(deref(a[0]))


@model("Option::unwrap", "Option::expect", "Result::unwrap", "Result::expect")
def opt_unwrap(m, a, c):
    v = a[0]
    if isinstance(v, Enum) and v.variant in ("Some", "Ok"):
        return v.f[0]
    raise Panic("called unwrap/expect on %s (%s)" % (v.variant if isinstance(v, Enum) else v, c[:60]))


@model("Option::unwrap_or")
def opt_unwrap_or(m, a, c):
    return a[0].f[0] if is_some(a[0]) else a[1]


@model("Option::map")
def opt_map(m, a, c):
    if is_some(a[0]):
        return some(m.prog.call_closure(m, a[1], [a[0].f[0]]))
    return none()


@model("Option::and_then")
def opt_and_then(m, a, c):
    if is_some(a[0]):
        return m.prog.call_closure(m, a[1], [a[0].f[0]])
    return none()


@model("Option::as_ref", "Option::as_mut", "Option::as_deref")
def opt_as_ref(m, a, c):
    p = deref_ptr(a[0])
    v = p.load()
    if is_some(v):
        return some(Ptr(v.f, 0))
    return none()


@model("Option::cloned", "Option::copied")
def opt_cloned(m, a, c):
    if is_some(a[0]):
        return some(clone_val(deref(a[0].f[0])))
    return none()


@model("<Option as Try>::branch")
def opt_branch(m, a, c):
    if is_some(a[0]):
        return Enum("ControlFlow", "Continue", 0, [a[0].f[0]])
    return Enum("ControlFlow", "Break", 1, [none()])


@model("<Option as FromResidual>::from_residual", "<Option as FromResidual<Option>>::from_residual")
def opt_from_residual(m, a, c):
    return none()


@model("<Option as PartialEq>::eq")
def opt_eq(m, a, c):
    x, y = deref(a[0]), deref(a[1])
    if is_some(x) != is_some(y):
        return False
    if not is_some(x):
        return True
    return val_eq(x.f[0], y.f[0])


def val_eq(x, y):
    x, y = deref(x), deref(y)
    if isinstance(x, Enum) and isinstance(y, Enum):
        if x.idx != y.idx:
            return False
        return b_and(*[val_eq(p, q) for p, q in zip(x.f, y.f)]) if x.f else True
    if isinstance(x, (Tendril, Str, Atom)) and isinstance(y, (Tendril, Str, Atom)):
        return seq_eq(x.ch, y.ch)
    if isinstance(x, Atom) and isinstance(y, Atom):
        return seq_eq(x.ch, y.ch)
    if isinstance(x, Str) and isinstance(y, Str):
        return seq_eq(x.ch, y.ch)
    if isinstance(x, (int, bool)) or is_sym(x):
        if isinstance(x, int) and isinstance(y, int):
            return x == y
        return to_bv(x, 32) == to_bv(y, 32)
    if isinstance(x, VecM) and isinstance(y, VecM):
        if len(x.v) != len(y.v):
            return False
        return b_and(*[val_eq(p, q) for p, q in zip(x.v, y.v)]) if x.v else True
    if isinstance(x, (Tup, Struct)) and type(x) is type(y) and len(x.f) == len(y.f):
        return b_and(*[val_eq(p, q) for p, q in zip(x.f, y.f)]) if x.f else True
    raise Unsupported("equality of %r and %r" % (x, y))


def clone_val(v):
    if isinstance(v, Tendril):
        return Tendril(v.ch)
    if isinstance(v, VecM):
        return VecM([clone_val(x) for x in v.v])
    if isinstance(v, Atom):
        return v
    if isinstance(v, Struct):
        return Struct(v.ty, [clone_val(x) for x in v.f])
    if isinstance(v, Enum):
        return Enum(v.ty, v.variant, v.idx, [clone_val(x) for x in v.f])
    if isinstance(v, Tup):
        return Tup([clone_val(x) for x in v.f])
    return v


@model("*::clone", "<Atom as Clone>::clone", "<Tendril as Clone>::clone", "<Option as Clone>::clone")
def generic_clone(m, a, c):
    return clone_val(deref(a[0]))


@model("<Option as Default>::default")
def opt_default(m, a, c):
    return none()


@model("<bool as Default>::default")
def bool_default(m, a, c):
    return False


@model("<Tendril as Default>::default", "Tendril::new")
def tendril_new(m, a, c):
    return Tendril()


# ---------------------------------------------------------------- Tendril
def T(v):
    t = deref(v)
    if not isinstance(t, Tendril):
        raise Unsupported("expected Tendril, got %r" % (t,))
    return t


@model("Tendril::push_char")
def tendril_push_char(m, a, c):
    T(a[0]).ch.append(a[1])
    return UNIT


@model("Tendril::push_slice")
def tendril_push_slice(m, a, c):
    T(a[0]).ch.extend(as_str(a[1]).ch)
    return UNIT


@model("Tendril::push_tendril")
def tendril_push_tendril(m, a, c):
    T(a[0]).ch.extend(T(a[1]).ch)
    return UNIT


@model("Tendril::clear")
def tendril_clear(m, a, c):
    T(a[0]).ch[:] = []
    return UNIT


@model("Tendril::from_char")
def tendril_from_char(m, a, c):
    return Tendril([a[0]])


@model("Tendril::from_slice", "<Tendril as From<&str>>::from", "<Tendril as From>::from")
def tendril_from_slice(m, a, c):
    return Tendril(as_str(a[0]).ch)


@model("Tendril::pop_front_char")
def tendril_pop_front_char(m, a, c):
    t = T(a[0])
    if not t.ch:
        return none()
    return some(t.ch.pop(0))


@model("Tendril::len32")
def tendril_len32(m, a, c):
    return sum(char_len(x) for x in T(a[0]).ch)


@model("Tendril::is_empty")
def tendril_is_empty(m, a, c):
    return len(T(a[0]).ch) == 0


def as_str(v):
    v = deref(v)
    if isinstance(v, Str):
        return v
    if isinstance(v, Tendril):
        return Str(v.ch)
    if isinstance(v, Atom):
        return Str(v.ch)
    if isinstance(v, Opaque) and v.what != "static":
        return Str([])                 # formatted messages (format! is a no-op): only ever handed to the sink
    raise Unsupported("expected str-like, got %r" % (v,))


@model("<Tendril as Deref>::deref", "<Tendril as DerefMut>::deref_mut", "<Atom as Deref>::deref", "<Tendril as AsRef>::as_ref",
       "<String as Deref>::deref", "<Cow as Deref>::deref")
def tendril_deref(m, a, c):
    v = deref(a[0])
    if isinstance(v, Enum) and v.ty == "Cow":
        return as_str(v.f[0])
    return Ptr([as_str(v)], 0)


@model("core::str::<impl str>::is_empty", "str::is_empty")
def str_is_empty(m, a, c):
    return len(as_str(a[0]).ch) == 0


@model("core::str::<impl str>::len", "str::len")
def str_len(m, a, c):
    return sum(char_len(x) for x in as_str(a[0]).ch)


@model("core::str::<impl str>::chars", "str::chars")
def str_chars(m, a, c):
    return Iter(as_str(a[0]).ch, "chars")


@model("<Chars as Iterator>::next")
def chars_next(m, a, c):
    it = deref(a[0])
    if it.i < len(it.seq):
        it.i += 1
        return some(it.seq[it.i - 1])
    return none()


def byte_view(chs):
    out = []
    for x in chs:
        out.extend(char_bytes(x))
    return out


@model("core::str::<impl str>::as_bytes", "str::as_bytes", "Tendril::as_bytes")
def str_as_bytes(m, a, c):
    v = deref(a[0])
    chs = v.ch if isinstance(v, (Str, Tendril)) else as_str(v).ch
    s = Str(byte_view(chs), True)
    return Ptr([s], 0)


def slice_get(m, a, c):
    i = a[1]
    if is_sym(i):
        raise Unsupported("symbolic slice index")
    seq = seq_of(a[0])
    if i < len(seq):
        return some(Ptr(seq, i))
    return none()


@model("core::slice::<impl [T]>::len")
def slice_len(m, a, c):
    return len(seq_of(a[0]))


def split_at_bytes(chs, n):
    """index into the character list that corresponds to byte offset n (must be a boundary)"""
    if is_sym(n):
        raise Unsupported("symbolic byte offset")
    off = 0
    for i, x in enumerate(chs):
        if off == n:
            return i
        off += char_len(x)
    if off == n:
        return len(chs)
    raise Panic("byte offset %d is not on a character boundary / out of bounds" % n)


@model("Tendril::unsafe_subtendril", "Tendril::subtendril")
def tendril_subtendril(m, a, c):
    t = T(a[0])
    i0 = split_at_bytes(t.ch, a[1])
    i1 = split_at_bytes(t.ch[i0:], a[2]) + i0
    return Tendril(t.ch[i0:i1])


@model("Tendril::unsafe_pop_front", "Tendril::pop_front")
def tendril_pop_front(m, a, c):
    t = T(a[0])
    i = split_at_bytes(t.ch, a[1])
    t.ch[:] = t.ch[i:]
    return UNIT


@model("<&str as PartialEq>::eq", "<str as PartialEq>::eq", "<Atom as PartialEq>::eq", "<Tendril as PartialEq>::eq",
       "<Atom as PartialEq<str>>::eq", "<Tendril as PartialEq<str>>::eq")
def str_eq(m, a, c):
    return seq_eq(as_str(a[0]).ch, as_str(a[1]).ch)


@model("<&str as PartialEq>::ne", "<str as PartialEq>::ne", "<Atom as PartialEq>::ne")
def str_ne(m, a, c):
    return b_not(seq_eq(as_str(a[0]).ch, as_str(a[1]).ch))


# ---------------------------------------------------------------- atoms / names
@model("<Atom as From<&str>>::from", "<Atom as From>::from", "<Atom as From<Cow>>::from", "<Atom as From<String>>::from",
       "<Atom as From<&String>>::from")
def atom_from(m, a, c):
    v = deref(a[0])
    if isinstance(v, Enum) and v.ty == "Cow":
        v = v.f[0]
    return Atom(as_str(v).ch)


@model("QualName::new")
def qualname_new(m, a, c):
    return Struct("QualName", [a[0], a[1], a[2]])


# ---------------------------------------------------------------- Vec
def V(v):
    x = deref(v)
    if not isinstance(x, VecM):
        raise Unsupported("expected Vec, got %r" % (x,))
    return x


@model("Vec::new", "<Vec as Default>::default")
def vec_new(m, a, c):
    return VecM()


@model("Vec::push")
def vec_push(m, a, c):
    V(a[0]).v.append(a[1])
    return UNIT


def seq_of(v):
    x = deref(v)
    if isinstance(x, VecM):
        return x.v
    if isinstance(x, Str):
        return x.ch
    if isinstance(x, Arr):
        return x.f
    raise Unsupported("expected a slice-like value, got %r" % (x,))


@model("Vec::is_empty", "core::slice::<impl [T]>::is_empty")
def vec_is_empty(m, a, c):
    return len(seq_of(a[0])) == 0


@model("Vec::len")
def vec_len(m, a, c):
    return len(seq_of(a[0]))


@model("<Vec as Deref>::deref", "<Vec as DerefMut>::deref_mut")
def vec_deref(m, a, c):
    return deref_ptr(a[0])


@model("core::slice::<impl [T]>::iter")
def slice_iter(m, a, c):
    x = deref(a[0])
    if isinstance(x, (Str, Tendril)):
        return Iter(bytes_of(a[0]), "slice")
    return Iter(seq_of(a[0]), "slice")


@model("<std::slice::Iter as Iterator>::any", "<Iter as Iterator>::any")
def iter_any(m, a, c):
    it = deref(a[0])
    clo = a[1]
    for i in range(it.i, len(it.seq)):
        r = m.prog.call_closure(m, Ptr([clo], 0) if isinstance(clo, Closure) else clo, [Ptr(it.seq, i)])
        if m.branch_bool(r, "Iterator::any"):
            return True
    return False


# ---------------------------------------------------------------- chars
def ascii_lower(c):
    if isinstance(c, int):
        return c + 32 if 65 <= c <= 90 else c
    return z3.If(z3.And(z3.UGE(c, 65), z3.ULE(c, 90)), c + 32, c)


@model("char::methods::<impl char>::to_ascii_lowercase")
def char_to_lower(m, a, c):
    return ascii_lower(deref(a[0]))


@model("char::methods::<impl char>::is_ascii_alphabetic")
def char_is_alpha(m, a, c):
    x = deref(a[0])
    return b_or(in_range(x, 65, 90), in_range(x, 97, 122))


@model("char::methods::<impl char>::is_ascii_alphanumeric")
def char_is_alnum(m, a, c):
    x = deref(a[0])
    return b_or(in_range(x, 65, 90), in_range(x, 97, 122), in_range(x, 48, 57))


@model("char::methods::<impl char>::is_ascii_digit")
def char_is_digit(m, a, c):
    return in_range(deref(a[0]), 48, 57)


@model("char::methods::<impl char>::is_ascii")
def char_is_ascii(m, a, c):
    return in_range(deref(a[0]), 0, 127)


@model("char::methods::<impl char>::to_digit")
def char_to_digit(m, a, c):
    x, radix = a
    if radix == 10:
        if m.branch_bool(in_range(x, 48, 57), "to_digit"):
            return some(x - 48)
        return none()
    if radix == 16:
        if m.branch_bool(in_range(x, 48, 57), "to_digit"):
            return some(x - 48)
        if m.branch_bool(in_range(x, 97, 102), "to_digit"):
            return some(x - 87)
        if m.branch_bool(in_range(x, 65, 70), "to_digit"):
            return some(x - 55)
        return none()
    raise Unsupported("to_digit radix %r" % (radix,))


@model("std::char::from_u32", "char::methods::<impl char>::from_u32", "core::char::from_u32", "from_u32")
def char_from_u32(m, a, c):
    x = a[0]
    ok = b_and(b_or(in_range(x, 0, 0xD7FF), in_range(x, 0xE000, 0x10FFFF)))
    if m.branch_bool(ok, "char::from_u32"):
        return some(x)
    return none()


@model("core::num::<impl u8>::eq_ignore_ascii_case")
def u8_eq_ic(m, a, c):
    x, y = deref(a[0]), deref(a[1])
    lx = ascii_lower(x) if isinstance(x, int) else z3.If(z3.And(z3.UGE(x, 65), z3.ULE(x, 90)), x + 32, x)
    ly = ascii_lower(y) if isinstance(y, int) else z3.If(z3.And(z3.UGE(y, 65), z3.ULE(y, 90)), y + 32, y)
    if isinstance(lx, int) and isinstance(ly, int):
        return lx == ly
    w = lx.size() if is_sym(lx) else ly.size()
    return to_bv(lx, w) == to_bv(ly, w)


@model("<u8 as PartialEq>::eq", "<u8 as std::cmp::PartialEq>::eq", "<char as PartialEq>::eq")
def u8_eq(m, a, c):
    x, y = deref(a[0]), deref(a[1])
    if isinstance(x, int) and isinstance(y, int):
        return x == y
    w = x.size() if is_sym(x) else y.size()
    return to_bv(x, w) == to_bv(y, w)


# ---------------------------------------------------------------- logging / formatting (no-ops)
@model("<Level as PartialOrd<LevelFilter>>::le", "<Level as PartialOrd>::le")
def log_le(m, a, c):
    return False


@model("max_level", "log::max_level")
def log_max(m, a, c):
    return 0


@model("core::fmt::rt::Argument::new_display", "core::fmt::rt::Argument::new_debug", "Argument::new_display", "Argument::new_debug",
       "core::fmt::rt::Argument::new_upper_hex", "core::fmt::rt::Argument::new_lower_hex", "Argument::new_upper_hex", "Argument::new_lower_hex")
def fmt_arg(m, a, c):
    try:
        return Opaque("fmtarg", (copy_val(deref(a[0])),))
    except Exception:
        return Opaque("fmtarg")


@model("Arguments::new", "Arguments::new_const", "Arguments::from_str", "core::fmt::Arguments::new_const")
def fmt_arguments(m, a, c):
    return Opaque("fmtargs", tuple(a))


@model("format", "std::fmt::format", "alloc::fmt::format", "fmt::format", "alloc::fmt::format::format_inner", "format_inner")
def fmt_format(m, a, c):
    return Opaque("String")


@model("<Cow as From<String>>::from", "<Cow as From>::from", "<Cow as From<&str>>::from")
def cow_from(m, a, c):
    v = a[0]
    if isinstance(v, Opaque):
        return Enum("Cow", "Owned", 1, [v])
    return Enum("Cow", "Borrowed", 0, [v])


@model("BTreeMap::new")
def btreemap_new(m, a, c):
    return Opaque("BTreeMap")


# ---------------------------------------------------------------- BufferQueue (flat character stream)
def Q(v):
    q = deref(v)
    if not isinstance(q, BufQ):
        raise Unsupported("expected BufferQueue, got %r" % (q,))
    return q


def q_trim(q):
    while q.bufs and not q.bufs[0].ch:
        q.bufs.pop(0)


@model("BufferQueue::default", "<BufferQueue as Default>::default")
def bq_default(m, a, c):
    q = BufQ()
    m.notes.setdefault("aux_queues", []).append(q)
    return q


@model("BufferQueue::is_empty")
def bq_is_empty(m, a, c):
    return len(Q(a[0]).bufs) == 0


@model("BufferQueue::push_back")
def bq_push_back(m, a, c):
    t = a[1]
    if t.ch:
        Q(a[0]).bufs.append(t)
    return UNIT


@model("BufferQueue::push_front")
def bq_push_front(m, a, c):
    t = a[1]
    if t.ch:
        q = Q(a[0])
        q.bufs.insert(0, t)
        q.consumed -= len(t.ch)
    return UNIT


@model("BufferQueue::pop_front")
def bq_pop_front(m, a, c):
    q = Q(a[0])
    if q.bufs:
        t = q.bufs.pop(0)
        q.consumed += len(t.ch)
        return some(t)
    return none()


@model("BufferQueue::peek")
def bq_peek(m, a, c):
    q = Q(a[0])
    if q.bufs:
        return some(q.bufs[0].ch[0])
    return none()


@model("BufferQueue::next")
def bq_next(m, a, c):
    q = Q(a[0])
    if not q.bufs:
        return none()
    ch = q.bufs[0].ch.pop(0)
    q.consumed += 1
    q_trim(q)
    return some(ch)


@model("BufferQueue::peek_front_chunk_mut")
def bq_peek_front_chunk_mut(m, a, c):
    q = Q(a[0])
    if not q.bufs:
        return none()
    return some(Guard(Ptr(q.bufs, 0), None, True))


def in_small_set(ch, bits):
    if isinstance(ch, int):
        return ch < 64 and (bits >> ch) & 1 == 1
    members = [i for i in range(64) if (bits >> i) & 1]
    return b_or(*[ch == i for i in members]) if members else False


@model("BufferQueue::pop_except_from")
def bq_pop_except_from(m, a, c):
    q = Q(a[0])
    s = a[1]
    bits = s.f[0]
    if is_sym(bits):
        raise Unsupported("symbolic SmallCharSet")
    if not q.bufs:
        return none()
    buf = q.bufs[0]
    n = 0
    while n < len(buf.ch):
        if m.branch_bool(in_small_set(buf.ch[n], bits), "pop_except_from member?"):
            break
        n += 1
    if n > 0:
        out = Tendril(buf.ch[:n])
        buf.ch[:] = buf.ch[n:]
        q.consumed += n
        q_trim(q)
        return some(Enum("SetResult", "NotFromSet", 1, [out]))
    ch = buf.ch.pop(0)
    q.consumed += 1
    q_trim(q)
    return some(Enum("SetResult", "FromSet", 0, [ch]))


@model("BufferQueue::eat")
def bq_eat(m, a, c):
    q = Q(a[0])
    pat = as_str(a[1]).ch
    eq = a[2]
    if not q.bufs:
        return none()
    flat = [x for b in q.bufs for x in b.ch]
    for i, p in enumerate(pat):
        if i >= len(flat):
            return none()
        x = flat[i]
        # byte-wise comparison: an ASCII pattern byte can only equal the single byte of an ASCII character
        if isinstance(x, int) and x >= 0x80:
            r = False
        else:
            r = m.prog.call_closure(m, eq, [Ptr([x], 0), Ptr([p], 0)])
            if is_sym(x):
                r = b_and(in_range(x, 0, 0x7F), to_bool(r) if is_sym(r) else r)
        if not m.branch_bool(r, "BufferQueue::eat"):
            return some(False)
    n = len(pat)
    q.consumed += n
    while n > 0:
        b = q.bufs[0]
        k = min(n, len(b.ch))
        b.ch[:] = b.ch[k:]
        n -= k
        q_trim(q)
    return some(True)


# ---------------------------------------------------------------- special projections on model types
def deref_special(m, v):
    if isinstance(v, Guard):
        return v.p
    if isinstance(v, Str):
        return Ptr([v], 0)          # a &str is held as the Str itself; *s / &*s name the same string
    raise Unsupported("deref of %r" % (v,))


class _SliceSeq:
    """list-like window onto Slice.base so that Ptr(seq, i) reads/writes the underlying storage"""
    __slots__ = ("s",)

    def __init__(self, s):
        self.s = s

    def __len__(self):
        return self.s.hi - self.s.lo

    def __getitem__(self, i):
        if not 0 <= i < len(self):
            raise Panic("slice index out of bounds")
        return self.s.base[self.s.lo + i]

    def __setitem__(self, i, v):
        if not 0 <= i < len(self):
            raise Panic("slice index out of bounds")
        self.s.base[self.s.lo + i] = v


def index_special(m, v):
    if type(v).__name__ == "Slice":
        return _SliceSeq(v)
    if isinstance(v, Str):
        return v.ch
    if isinstance(v, VecM):
        return v.v
    raise Unsupported("index into %r" % (v,))


M["index_special"] = index_special


STATIC_ATOMS = {}     # bytes -> index in its static set (strings longer than 7 bytes; shorter ones are packed inline)
DYNAMIC_ATOMS = {}


def load_static_atoms(generated_rs):
    """string_cache codegen output of web_atoms: `pub const ATOM_<SET>__<hex bytes> : <Set> = <Set> :: pack_static (<n>u32)`"""
    STATIC_ATOMS.clear()
    txt = open(generated_rs, errors="replace").read()
    for mm in re.finditer(r"pub const ATOM_[A-Z]+_((?:_[0-9A-F]{2})*) : \w+ = \w+ :: pack_static \((\d+)u32\)", txt):
        key = bytes(int(h, 16) for h in mm.group(1).split("_") if h)
        n = int(mm.group(2))
        if key in STATIC_ATOMS and STATIC_ATOMS[key] != n:
            STATIC_ATOMS[key] = None
        else:
            STATIC_ATOMS[key] = n
    return len(STATIC_ATOMS)


def atom_pack(a):
    """string_cache's 64-bit representation of an atom that is not in a static set: inline for <= 7 bytes"""
    bs = byte_view(a.ch)
    if len(bs) > 7:
        if not all(isinstance(b, int) for b in bs):
            raise Unsupported("64-bit representation of a symbolic atom longer than 7 bytes")
        key = bytes(bs)
        if key in STATIC_ATOMS:
            if STATIC_ATOMS[key] is None:
                raise Unsupported("atom %r is in two static sets with different indices" % key)
            return (STATIC_ATOMS[key] << 32) | 2
        # dynamic atom: a pointer (tag 00), equal exactly for equal strings, different from every static / inline value
        DYNAMIC_ATOMS.setdefault(key, (len(DYNAMIC_ATOMS) + 1) << 40)
        return DYNAMIC_ATOMS[key]
    if all(isinstance(b, int) for b in bs):
        v = (len(bs) << 4) | 1
        for i, b in enumerate(bs):
            v |= b << (8 * (i + 1))
        return v
    v = z3.BitVecVal((len(bs) << 4) | 1, 64)
    for i, b in enumerate(bs):
        bb = z3.ZeroExt(56, b) if is_sym(b) else z3.BitVecVal(b, 64)
        v = v | (bb << (8 * (i + 1)))
    return v


class UninitCell:
    """Box<MaybeUninit<[T; N]>> of the vec![..] expansion"""
    __slots__ = ("slot",)

    def __init__(self):
        self.slot = [None]


def field_special(m, v, n, ty):
    if isinstance(v, Guard):
        inner = v.p.load()
        return Ptr(inner.f, n)
    if isinstance(v, UninitCell):
        # MaybeUninit<T> { value: ManuallyDrop<MaybeDangling<T>> }: the wrappers are transparent, the payload lives in .slot
        if ty.startswith(("std::mem::ManuallyDrop", "std::mem::MaybeDangling", "core::mem::ManuallyDrop", "core::mem::MaybeDangling")):
            return Ptr([v], 0)
        return Ptr(v.slot, 0)
    if isinstance(v, Atom):
        # Atom { unsafe_data: NonZero<u64> } . 0 (NonZeroU64Inner) . 0 (u64): patterns on atoms compare this integer
        if "NonZero" in ty:
            return Ptr([v], 0)
        return Ptr([atom_pack(v)], 0)
    raise Unsupported("field %d of %r" % (n, v))


M["deref_special"] = deref_special
M["field_special"] = field_special


@model("must_use", "std::hint::must_use", "core::hint::must_use")
def must_use(m, a, c):
    return a[0]


@model("<Range as IntoIterator>::into_iter")
def range_into_iter(m, a, c):
    return a[0]


@model("<Range as Iterator>::next")
def range_next(m, a, c):
    r = deref(a[0])
    s, e = r.f
    if is_sym(s) or is_sym(e):
        if not m.branch_bool(z3.ULT(to_bv(s, 64) if not is_sym(s) else s, to_bv(e, s.size()) if is_sym(s) else e), "range next"):
            return none()
        r.f[0] = s + 1
        return some(s)
    if s < e:
        r.f[0] = s + 1
        return some(s)
    return none()


@model("<str as Index>::index", "<str as Index<RangeFull>>::index")
def str_index_full(m, a, c):
    r = a[1]
    st = as_str(a[0])
    if isinstance(r, Struct) and r.ty == "RangeFrom":
        i = split_at_bytes(st.ch, r.f[0])
        return Ptr([Str(st.ch[i:])], 0)
    if isinstance(r, Struct) and r.ty == "RangeTo":
        i = split_at_bytes(st.ch, r.f[0])
        return Ptr([Str(st.ch[:i])], 0)
    if isinstance(r, Struct) and r.ty == "Range":
        i = split_at_bytes(st.ch, r.f[0])
        j = split_at_bytes(st.ch, r.f[1])
        return Ptr([Str(st.ch[i:j])], 0)
    if isinstance(r, Struct) and r.ty == "RangeFull":
        return a[0]
    raise Unsupported("str index by %r" % (r,))


@model("phf::map::Map::get", "Map::get")
def phf_get(m, a, c):
    """NAMED_ENTITIES.get(name): lookup in the table parsed from the generated named_entities.rs
    of the current tree; a symbolic name forks over every table key it can equal."""
    key = as_str(a[1]).ch
    table = m.prog.entities
    if all(isinstance(x, int) for x in key):
        v = table.get("".join(chr(x) for x in key))
        return some(Ptr([Tup([v[0], v[1]])], 0)) if v is not None else none()
    opts = []
    neg = []
    for name, v in m.prog.entities_by_len.get(len(key), ()):
        ok = True
        for x, y in zip(key, name):
            if isinstance(x, int) and x != ord(y):
                ok = False
                break
        if not ok:
            continue
        cond = seq_eq(key, [ord(y) for y in name])
        if cond is False:
            continue
        opts.append((name, cond))
        neg.append(b_not(cond))
    opts.append(("<none>", b_and(*neg) if neg else True))
    lab = m.choose(opts, "NAMED_ENTITIES.get")
    if lab == "<none>":
        return none()
    v = table[lab]
    return some(Ptr([Tup([v[0], v[1]])], 0))


def _wrap(op, w):
    def f(m, a, c):
        x, y = a
        if isinstance(x, int) and isinstance(y, int):
            r = {"mul": x * y, "add": x + y, "sub": x - y}[op]
            return mask(r, w)
        x, y = to_bv(x, w), to_bv(y, w)
        return {"mul": x * y, "add": x + y, "sub": x - y}[op]
    return f


for _ty, _w in (("u8", 8), ("u16", 16), ("u32", 32), ("u64", 64), ("usize", 64)):
    for _op in ("mul", "add", "sub"):
        model("core::num::<impl %s>::wrapping_%s" % (_ty, _op))(_wrap(_op, _w))


@model("std::cmp::min", "cmp::min", "core::cmp::min")
def cmp_min(m, a, c):
    x, y = a
    if isinstance(x, int) and isinstance(y, int):
        return min(x, y)
    raise Unsupported("symbolic min")


@model("std::cmp::max", "cmp::max", "core::cmp::max")
def cmp_max(m, a, c):
    x, y = a
    if isinstance(x, int) and isinstance(y, int):
        return max(x, y)
    raise Unsupported("symbolic max")


# ---------------------------------------------------------------- profiling support (clock stub: every duration is 0 ns)
@model("Instant::now")
def instant_now(m, a, c):
    return Opaque("Instant")


@model("Instant::elapsed")
def instant_elapsed(m, a, c):
    return Opaque("Duration")


@model("Duration::as_nanos")
def duration_as_nanos(m, a, c):
    return 0


class MapM:
    __slots__ = ("d",)

    def __init__(self):
        self.d = {}


@model("BTreeMap::new")
def btreemap_new2(m, a, c):
    return MapM()


@model("BTreeMap::get_mut")
def btreemap_get_mut(m, a, c):
    mp = deref(a[0])
    mp.d.setdefault("__profile__", True)
    k = repr(deref(a[1]))
    if k in mp.d:
        return some(Ptr(mp.d[k], 0))
    return none()


def btreemap_insert(m, a, c):
    mp = deref(a[0])
    k = repr(a[1])
    old = mp.d.get(k)
    mp.d[k] = [a[2]]
    return some(old[0]) if old else none()


@model("Box::new")
def box_new(m, a, c):
    return Ptr([a[0]], 0)


@model("<Box as Drop>::drop")
def box_drop(m, a, c):
    return UNIT


@model("Vec::insert")
def vec_insert(m, a, c):
    if is_sym(a[1]):
        raise Unsupported("symbolic Vec::insert index")
    V(a[0]).v.insert(a[1], a[2])
    return UNIT


# ---------------------------------------------------------------- byte slices / iterators (used by encoding.rs and tendril's decoder)
def bytes_of(v):
    x = deref(v)
    if isinstance(x, Str):
        return x.ch if x.bytes else byte_view(x.ch)
    if isinstance(x, Tendril):
        return byte_view(x.ch)
    if isinstance(x, Arr):
        return x.f
    raise Unsupported("expected bytes, got %r" % (x,))


@model("core::slice::<impl [T]>::get")
def slice_get2(m, a, c):
    i = a[1]
    seq = seq_of(a[0]) if not isinstance(deref(a[0]), (Str, Tendril)) else bytes_of(a[0])
    if isinstance(i, Struct) and i.ty == "Range":
        s, e = i.f
        if is_sym(s) or is_sym(e):
            raise Unsupported("symbolic range")
        if s <= e <= len(seq):
            return some(Ptr([Str(seq[s:e], True)], 0))
        return none()
    if is_sym(i):
        raise Unsupported("symbolic slice index")
    if i < len(seq):
        return some(Ptr(seq, i))
    return none()


@model("<[T] as Index>::index")
def slice_index_range(m, a, c):
    seq = bytes_of(a[0])
    r = a[1]
    if isinstance(r, Struct) and r.ty == "RangeFrom":
        if r.f[0] > len(seq):
            raise Panic("range start index out of range for slice")
        return Ptr([Str(seq[r.f[0]:], True)], 0)
    if isinstance(r, Struct) and r.ty == "RangeTo":
        if r.f[0] > len(seq):
            raise Panic("range end index out of range for slice")
        return Ptr([Str(seq[:r.f[0]], True)], 0)
    if isinstance(r, Struct) and r.ty == "Range":
        if not (r.f[0] <= r.f[1] <= len(seq)):
            raise Panic("slice index out of range")
        return Ptr([Str(seq[r.f[0]:r.f[1]], True)], 0)
    raise Unsupported("slice index by %r" % (r,))


@model("core::slice::ascii::<impl [T]>::eq_ignore_ascii_case", "core::slice::ascii::<impl [u8]>::eq_ignore_ascii_case")
def slice_eq_ic(m, a, c):
    x, y = bytes_of(a[0]), bytes_of(a[1])
    if len(x) != len(y):
        return False
    conds = []
    for p, q in zip(x, y):
        lp = (p + 32 if 65 <= p <= 90 else p) if isinstance(p, int) else z3.If(z3.And(z3.UGE(p, 65), z3.ULE(p, 90)), p + 32, p)
        lq = (q + 32 if 65 <= q <= 90 else q) if isinstance(q, int) else z3.If(z3.And(z3.UGE(q, 65), z3.ULE(q, 90)), q + 32, q)
        if isinstance(lp, int) and isinstance(lq, int):
            if lp != lq:
                return False
            continue
        w = lp.size() if is_sym(lp) else lq.size()
        conds.append(to_bv(lp, w) == to_bv(lq, w))
    return b_and(*conds) if conds else True


@model("core::num::<impl u8>::is_ascii_whitespace")
def u8_is_ws(m, a, c):
    x = deref(a[0])
    if isinstance(x, int):
        return x in (9, 10, 12, 13, 32)
    return z3.Or([x == v for v in (9, 10, 12, 13, 32)])


class TakeWhile:
    __slots__ = ("it", "clo")

    def __init__(self, it, clo):
        self.it, self.clo = it, clo


@model("<Iter as Iterator>::take_while", "<std::slice::Iter as Iterator>::take_while")
def iter_take_while(m, a, c):
    return TakeWhile(a[0], a[1])


@model("<TakeWhile as Iterator>::count")
def take_while_count(m, a, c):
    tw = a[0]
    it = tw.it
    n = 0
    clo = Ptr([tw.clo], 0)
    for i in range(it.i, len(it.seq)):
        r = m.prog.call_closure(m, clo, [Ptr([Ptr(it.seq, i)], 0)])
        if not m.branch_bool(r, "take_while"):
            break
        n += 1
    return n


@model("<Iter as Iterator>::position", "<std::slice::Iter as Iterator>::position")
def iter_position(m, a, c):
    it = deref(a[0])
    clo = a[1] if isinstance(a[1], Ptr) else Ptr([a[1]], 0)
    for i in range(it.i, len(it.seq)):
        r = m.prog.call_closure(m, clo, [Ptr(it.seq, i)])
        if m.branch_bool(r, "position"):
            return some(i - it.i)
    return none()


# ---------------------------------------------------------------- byte tendrils, slice views, core::str::from_utf8 (tendril's decoder)
class BTendril:
    """Tendril<fmt::Bytes>: a list of byte values"""
    __slots__ = ("b",)

    def __init__(self, b=()):
        self.b = list(b)


class Slice:
    """&[T] / &mut [T] view into an underlying Python list"""
    __slots__ = ("base", "lo", "hi")

    def __init__(self, base, lo, hi):
        self.base, self.lo, self.hi = base, lo, hi

    def items(self):
        return self.base[self.lo:self.hi]


def view_of(v):
    """-> (base list, lo, hi) of a slice-like value (mutable view where possible)"""
    x = deref(v)
    if isinstance(x, Slice):
        return x.base, x.lo, x.hi
    if isinstance(x, Arr):
        return x.f, 0, len(x.f)
    if isinstance(x, Str):
        return x.ch, 0, len(x.ch)
    if isinstance(x, BTendril):
        return x.b, 0, len(x.b)
    if isinstance(x, VecM):
        return x.v, 0, len(x.v)
    raise Unsupported("expected slice view, got %r" % (x,))


_old_bytes_of = bytes_of


def bytes_of(v):
    x = deref(v)
    if isinstance(x, Slice):
        return x.items()
    if isinstance(x, BTendril):
        return list(x.b)
    return _old_bytes_of(v)


_old_seq_of = seq_of


def seq_of(v):
    x = deref(v)
    if isinstance(x, Slice):
        return x.items()
    if isinstance(x, BTendril):
        return x.b
    return _old_seq_of(v)


def BT(v):
    x = deref(v)
    if not isinstance(x, BTendril):
        raise Unsupported("expected byte tendril, got %r" % (x,))
    return x


def _tendril_dispatch(name, bfn):
    old = M.get(name)

    def f(m, a, c, _old=old, _b=bfn):
        if isinstance(deref(a[0]), BTendril):
            USED.add(name + "[bytes]")
            return _b(m, a, c)
        return _old(m, a, c)
    M[name] = f


def _bt_pop_front(m, a, c):
    t = BT(a[0])
    n = a[1]
    if is_sym(n):
        raise Unsupported("symbolic pop_front")
    if n > len(t.b):
        raise Panic("Tendril::pop_front out of bounds")
    t.b[:] = t.b[n:]
    return UNIT


def _bt_subtendril(m, a, c):
    t = BT(a[0])
    o, n = a[1], a[2]
    if is_sym(o) or is_sym(n):
        raise Unsupported("symbolic subtendril")
    if o > len(t.b) or n > len(t.b) - o:
        raise Panic("Tendril::subtendril out of bounds")
    return BTendril(t.b[o:o + n])


_tendril_dispatch("Tendril::pop_front", _bt_pop_front)
_tendril_dispatch("Tendril::unsafe_pop_front", _bt_pop_front)
_tendril_dispatch("Tendril::subtendril", _bt_subtendril)
_tendril_dispatch("Tendril::unsafe_subtendril", _bt_subtendril)
_tendril_dispatch("Tendril::is_empty", lambda m, a, c: len(BT(a[0]).b) == 0)
_tendril_dispatch("Tendril::len32", lambda m, a, c: len(BT(a[0]).b))
_tendril_dispatch("<Tendril as Deref>::deref", lambda m, a, c: Ptr([Str(BT(a[0]).b, True)], 0))


@model("Tendril::reinterpret_without_validating")
def tendril_reinterpret(m, a, c):
    return a[0]


_old_from_slice = M["Tendril::from_slice"]


def _from_slice(m, a, c):
    x = deref(a[0])
    if isinstance(x, (Slice,)) or (isinstance(x, Str) and x.bytes):
        return BTendril(bytes_of(a[0]))
    return _old_from_slice(m, a, c)


M["Tendril::from_slice"] = _from_slice

_old_str_len = M["core::str::<impl str>::len"]


def _str_len(m, a, c):
    x = deref(a[0])
    if isinstance(x, Slice) or (isinstance(x, Str) and x.bytes):
        return len(bytes_of(a[0]))
    return _old_str_len(m, a, c)


M["core::str::<impl str>::len"] = _str_len
M["str::len"] = _str_len


@model("core::slice::<impl [T]>::split_at")
def slice_split_at(m, a, c):
    base, lo, hi = view_of(a[0])
    mid = a[1]
    if is_sym(mid):
        raise Unsupported("symbolic split_at")
    if mid > hi - lo:
        raise Panic("split_at: mid > len")
    return Tup([Ptr([Slice(base, lo, lo + mid)], 0), Ptr([Slice(base, lo + mid, hi)], 0)])


@model("core::slice::<impl [T]>::copy_from_slice")
def slice_copy_from_slice(m, a, c):
    base, lo, hi = view_of(a[0])
    src = bytes_of(a[1])
    if len(src) != hi - lo:
        raise Panic("copy_from_slice: source slice length does not match destination slice length")
    base[lo:hi] = src
    return UNIT


@model("<[T] as IndexMut>::index_mut")
def slice_index_mut(m, a, c):
    base, lo, hi = view_of(a[0])
    r = a[1]
    n = hi - lo
    if isinstance(r, Struct) and r.ty == "RangeFrom":
        s, e = r.f[0], n
    elif isinstance(r, Struct) and r.ty == "RangeTo":
        s, e = 0, r.f[0]
    elif isinstance(r, Struct) and r.ty == "Range":
        s, e = r.f
    else:
        raise Unsupported("index_mut by %r" % (r,))
    if is_sym(s) or is_sym(e):
        raise Unsupported("symbolic slice range")
    if not (s <= e <= n):
        raise Panic("slice index out of range")
    return Ptr([Slice(base, lo + s, lo + e)], 0)


_old_slice_index_range = M["<[T] as Index>::index"]


def _slice_index(m, a, c):
    x = deref(a[0])
    if isinstance(x, (Slice, Arr)):
        return slice_index_mut(m, a, c)
    return _old_slice_index_range(m, a, c)


M["<[T] as Index>::index"] = _slice_index


@model("core::num::<impl usize>::checked_sub")
def usize_checked_sub(m, a, c):
    x, y = a
    if is_sym(x) or is_sym(y):
        raise Unsupported("symbolic checked_sub")
    return some(x - y) if x >= y else none()


@model("Result::unwrap_or")
def result_unwrap_or(m, a, c):
    return a[0].f[0] if a[0].variant == "Ok" else a[1]


@model("<&str as Into>::into", "<&str as Into<Cow>>::into", "<str as Into>::into")
def str_into_cow(m, a, c):
    return Enum("Cow", "Borrowed", 0, [a[0]])


def utf8_scan(m, b):
    """core::str::from_utf8 on a list of (symbolic) bytes -> ('ok',) | ('err', valid_up_to, error_len or None).
    Forks on the class of every byte (Unicode table 3-7)."""
    n = len(b)
    i = 0
    rng = lambda x, lo, hi: in_range(x, lo, hi)
    while i < n:
        c = b[i]
        opts = [("ascii", rng(c, 0, 0x7F)), ("2", rng(c, 0xC2, 0xDF)), ("e0", c == 0xE0 if is_sym(c) else c == 0xE0),
                ("3", b_or(rng(c, 0xE1, 0xEC), rng(c, 0xEE, 0xEF))), ("ed", c == 0xED), ("f0", c == 0xF0), ("4", rng(c, 0xF1, 0xF3)), ("f4", c == 0xF4)]
        neg = b_and(*[b_not(x) for _, x in opts])
        lab = m.choose([(l, x) for l, x in opts if x is not False] + [("bad", neg)], "utf8 lead")
        if lab == "ascii":
            i += 1
            continue
        if lab == "bad":
            return ("err", i, 1)
        need, lo, hi = {"2": (1, 0x80, 0xBF), "e0": (2, 0xA0, 0xBF), "3": (2, 0x80, 0xBF), "ed": (2, 0x80, 0x9F), "f0": (3, 0x90, 0xBF),
                        "4": (3, 0x80, 0xBF), "f4": (3, 0x80, 0x8F)}[lab]
        for j in range(1, need + 1):
            if i + j >= n:
                return ("err", i, None)
            x = b[i + j]
            l, h = (lo, hi) if j == 1 else (0x80, 0xBF)
            if not m.branch_bool(rng(x, l, h), "utf8 continuation"):
                return ("err", i, j)
        i += need + 1
    return ("ok",)


@model("from_utf8", "core::str::from_utf8", "std::str::from_utf8", "str::from_utf8", "core::str::converts::from_utf8")
def str_from_utf8(m, a, c):
    b = bytes_of(a[0])
    r = utf8_scan(m, b)
    if r[0] == "ok":
        return Enum("Result", "Ok", 0, [Ptr([Str(b, True)], 0)])
    return Enum("Result", "Err", 1, [Struct("Utf8Error", [r[1], some(r[2]) if r[2] is not None else none()])])


@model("Utf8Error::valid_up_to")
def utf8error_valid_up_to(m, a, c):
    return deref(a[0]).f[0]


@model("Utf8Error::error_len")
def utf8error_error_len(m, a, c):
    return deref(a[0]).f[1]


@model("from_utf8_unchecked", "core::str::from_utf8_unchecked", "std::str::from_utf8_unchecked", "str::from_utf8_unchecked")
def str_from_utf8_unchecked(m, a, c):
    return Ptr([Str(bytes_of(a[0]), True)], 0)


@model("<Sink as TendrilSink>::process")
def tsink_process(m, a, c):
    t = a[1]
    m.notes.setdefault("sink_bytes", []).extend(bytes_of(Ptr([t], 0)))
    m.notes["sink_calls"] = m.notes.get("sink_calls", 0) + 1
    return UNIT


@model("<Sink as TendrilSink>::error")
def tsink_error(m, a, c):
    m.notes["sink_errors"] = m.notes.get("sink_errors", 0) + 1
    return UNIT


@model("<Sink as TendrilSink>::finish")
def tsink_finish(m, a, c):
    return UNIT


# ---------------------------------------------------------------- XML serializer support: io::Write recorder, BTreeMap with symbolic keys, Vec of maps
@model("<Wr as Write>::write_all", "<W as Write>::write_all", "<Wr as std::io::Write>::write_all", "<W as std::io::Write>::write_all")
def write_all(m, a, c):
    m.notes.setdefault("out", []).extend(bytes_of(a[1]))
    return Enum("Result", "Ok", 0, [UNIT])


@model("<W as Write>::write_fmt", "<Wr as Write>::write_fmt", "<W as std::io::Write>::write_fmt")
def write_fmt(m, a, c):
    # only used as write!(w, "{c}") with one Display char argument
    args = a[1]
    found = []

    def walk(x):
        if isinstance(x, Opaque):
            if x.what == "fmtarg":
                found.extend(x.args)
            for y in x.args:
                walk(y)
        elif isinstance(x, (Arr, Tup)):
            for y in x.f:
                walk(y)
        elif isinstance(x, Ptr):
            walk(x.load())
    walk(args)
    if len(found) != 1:
        raise Unsupported("write_fmt with %d arguments" % len(found))
    m.notes.setdefault("out", []).extend(char_bytes(found[0]))
    return Enum("Result", "Ok", 0, [UNIT])


@model("<Result as Try>::branch")
def result_branch(m, a, c):
    r = a[0]
    if r.variant == "Ok":
        return Enum("ControlFlow", "Continue", 0, [r.f[0]])
    return Enum("ControlFlow", "Break", 1, [Enum("Result", "Err", 1, [r.f[0]])])


@model("<Result as FromResidual>::from_residual")
def result_from_residual(m, a, c):
    return a[0]


@model("Atom::as_bytes")
def atom_as_bytes(m, a, c):
    return Ptr([Str(byte_view(deref(a[0]).ch), True)], 0)


@model("BTreeMap::get")
def btreemap_get(m, a, c):
    mp = deref(a[0])
    k = deref(a[1])
    for i, (kk, vv) in enumerate(mp.d.setdefault("items", [])):
        if m.branch_bool(val_eq(kk, k), "BTreeMap::get key"):
            return some(Ptr(mp.d["items"][i], 1))
    return none()


@model("BTreeMap::contains_key")
def btreemap_contains_key(m, a, c):
    return is_some(btreemap_get(m, a, c))


@model("BTreeMap::insert")
def btreemap_insert2(m, a, c):
    mp = deref(a[0])
    if "items" not in mp.d and mp.d:
        return btreemap_insert(m, a, c)        # the profiling map of the tokenizers (keys compared by repr)
    items = mp.d.setdefault("items", [])
    for it in items:
        if m.branch_bool(val_eq(it[0], a[1]), "BTreeMap::insert key"):
            old = it[1]
            it[1] = a[2]
            return some(old)
    items.append([a[1], a[2]])
    return none()


@model("BTreeMap::iter", "<&BTreeMap as IntoIterator>::into_iter")
def btreemap_iter(m, a, c):
    mp = deref(a[0])
    # (iteration order of a BTreeMap with symbolic keys is modelled as insertion order; callers only emit declarations,
    # whose order is irrelevant)
    return Iter([Tup([Ptr(it, 0), Ptr(it, 1)]) for it in mp.d.setdefault("items", [])], "map")


@model("<Iter as Iterator>::next", "<std::collections::btree_map::Iter as Iterator>::next", "<std::slice::Iter as Iterator>::next")
def generic_iter_next(m, a, c):
    it = deref(a[0])
    if it.i < len(it.seq):
        it.i += 1
        x = it.seq[it.i - 1]
        if it.kind == "slice":
            return some(Ptr(it.seq, it.i - 1))
        return some(x)
    return none()


@model("<Iter as Iterator>::rev", "<std::slice::Iter as Iterator>::rev")
def iter_rev(m, a, c):
    it = a[0]
    r = Iter(it.seq, "revslice")
    r.i = len(it.seq)
    return r


@model("<Rev as Iterator>::next")
def rev_next(m, a, c):
    it = deref(a[0])
    if it.i > 0:
        it.i -= 1
        return some(Ptr(it.seq, it.i))
    return none()


@model("<Rev as IntoIterator>::into_iter", "<Chars as IntoIterator>::into_iter", "<Iter as IntoIterator>::into_iter", "<AttrIter as IntoIterator>::into_iter")
def into_iter_identity(m, a, c):
    return a[0]


@model("<AttrIter as Iterator>::next")
def attr_iter_next(m, a, c):
    it = deref(a[0])
    if it.i < len(it.seq):
        it.i += 1
        return some(it.seq[it.i - 1])
    return none()


@model("Vec::pop")
def vec_pop(m, a, c):
    v = V(a[0])
    return some(v.v.pop()) if v.v else none()


@model("core::slice::<impl [T]>::last")
def slice_last(m, a, c):
    s = seq_of(a[0])
    return some(Ptr(s, len(s) - 1)) if s else none()


@model("core::slice::<impl [T]>::last_mut")
def slice_last_mut(m, a, c):
    return slice_last(m, a, c)


@model("<AttrIter as Iterator>::collect", "<Iter as Iterator>::collect")
def iter_collect(m, a, c):
    it = a[0]
    v = VecM(it.seq[it.i:])
    it.i = len(it.seq)
    return v


@model("<&Vec as IntoIterator>::into_iter")
def vec_ref_into_iter(m, a, c):
    return Iter(V(a[0]).v, "slice")


@model("<Vec as IntoIterator>::into_iter")
def vec_into_iter(m, a, c):
    # `for x in &v` and `for x in v` normalise to the same key: a reference argument means iteration by reference
    if isinstance(a[0], Ptr):
        return Iter(V(a[0]).v, "slice")
    return Iter(V(a[0]).v, "owned")


@model("<IntoIter as Iterator>::next", "<std::vec::IntoIter as Iterator>::next")
def vec_intoiter_next(m, a, c):
    it = deref(a[0])
    if it.i < len(it.seq):
        it.i += 1
        return some(it.seq[it.i - 1])
    return none()


@model("<IntoIter as Drop>::drop", "<std::vec::IntoIter as Drop>::drop", "<Vec as Drop>::drop")
def noop_drop(m, a, c):
    return UNIT


# ---------------------------------------------------------------- XML tree builder support: TreeSink recorder, HashSet, filter/chain iterators
class ListIter:
    """iterator over a fixed Python list of already-built items (returned as they are)"""
    __slots__ = ("items", "i")

    def __init__(self, items):
        self.items, self.i = list(items), 0


class FilterM:
    __slots__ = ("it", "clo")

    def __init__(self, it, clo):
        self.it, self.clo = it, clo


def sink_state(m):
    return m.notes.setdefault("tree", {"next": 1, "names": {}, "calls": []})


@model("<Sink as TreeSink>::get_document")
def ts_get_document(m, a, c):
    sink_state(m)
    return 0


@model("markup5ever::interface::create_element", "interface::create_element", "create_element")
def ts_create_element(m, a, c):
    st = sink_state(m)
    h = st["next"]
    st["next"] += 1
    name, attrs = a[1], a[2]
    st["names"][h] = name
    st["calls"].append(("create_element", h, clone_val(name), [clone_val(x) for x in attrs.v]))
    return h


@model("<Sink as TreeSink>::create_comment", "<Sink as TreeSink>::create_pi")
def ts_create_other(m, a, c):
    st = sink_state(m)
    h = st["next"]
    st["next"] += 1
    st["calls"].append((c.split("::")[-1], h))
    return h


@model("<Sink as TreeSink>::append", "<Sink as TreeSink>::pop", "<Sink as TreeSink>::parse_error", "<Sink as TreeSink>::append_doctype_to_document")
def ts_record(m, a, c):
    st = sink_state(m)
    nm = c.split("::")[-1]
    if nm == "append":
        child = a[2]
        st["calls"].append(("append", deref(a[1]), child.variant, child.f[0] if child.variant == "AppendNode" else None))
    elif nm == "pop":
        st["calls"].append(("pop", deref(a[1])))
    elif nm == "parse_error":
        st["calls"].append(("parse_error", repr(a[1:])))
    return UNIT


class ElemNameM:
    __slots__ = ("q",)

    def __init__(self, q):
        self.q = q


@model("<Sink as TreeSink>::elem_name")
def ts_elem_name(m, a, c):
    st = sink_state(m)
    h = deref(a[1])
    if h not in st["names"]:
        raise Panic("TreeSink contract: elem_name called on a handle that is not an element created by this sink (%r)" % (h,))
    return ElemNameM(st["names"][h])


@model("<ElemName as ElemName>::expanded", "<<Sink as TreeSink>::ElemName as ElemName>::expanded", "QualName::expanded", "markup5ever::QualName::expanded")
def qn_expanded(m, a, c):
    x = deref(a[0]) if not isinstance(a[0], ElemNameM) else a[0]
    q = x.q if isinstance(x, ElemNameM) else x
    return Struct("ExpandedName", [Ptr(q.f, 1), Ptr(q.f, 2)])


@model("<ElemName as ElemName>::local_name", "<<Sink as TreeSink>::ElemName as ElemName>::local_name")
def en_local_name(m, a, c):
    x = deref(a[0]) if not isinstance(a[0], ElemNameM) else a[0]
    return Ptr(x.q.f, 2)


@model("<ExpandedName as PartialEq>::eq")
def expanded_eq(m, a, c):
    x, y = deref(a[0]), deref(a[1])
    return b_and(val_eq(x.f[0], y.f[0]), val_eq(x.f[1], y.f[1]))


class SetM:
    __slots__ = ("items",)

    def __init__(self):
        self.items = []


@model("<HashSet as Default>::default", "HashSet::new")
def hashset_new(m, a, c):
    return SetM()


def _tuple_eq(x, y):
    return val_eq(x, y)


@model("HashSet::contains")
def hashset_contains(m, a, c):
    s = deref(a[0])
    for it in s.items:
        if m.branch_bool(_tuple_eq(it, a[1]), "HashSet::contains"):
            return True
    return False


@model("HashSet::insert")
def hashset_insert(m, a, c):
    s = deref(a[0])
    for it in s.items:
        if m.branch_bool(_tuple_eq(it, a[1]), "HashSet::insert"):
            return False
    s.items.append(a[1])
    return True


@model("core::slice::<impl [T]>::iter_mut")
def slice_iter_mut(m, a, c):
    return Iter(seq_of(a[0]), "slice")


@model("<IterMut as Iterator>::filter", "<Iter as Iterator>::filter")
def iter_filter(m, a, c):
    return FilterM(a[0], a[1])


@model("<Filter as Iterator>::next")
def filter_next(m, a, c):
    f = deref(a[0])
    it = f.it
    while it.i < len(it.seq):
        idx = it.i
        it.i += 1
        elem = Ptr(it.seq, idx)
        r = m.prog.call_closure(m, Ptr([f.clo], 0), [Ptr([elem], 0)])
        if m.branch_bool(r, "filter"):
            return some(elem)
    return none()


@model("<Filter as IntoIterator>::into_iter", "<Chain as IntoIterator>::into_iter", "<Drain as IntoIterator>::into_iter")
def into_iter_identity2(m, a, c):
    return a[0]


@model("<Iter as Iterator>::chain")
def iter_chain(m, a, c):
    it, other = a[0], a[1]
    items = [Ptr(it.seq, i) for i in range(it.i, len(it.seq))]
    if isinstance(other, Enum) and other.ty == "Option":
        if other.variant == "Some":
            items.append(other.f[0])
    else:
        raise Unsupported("chain with %r" % (other,))
    return ListIter(items)


@model("<Chain as Iterator>::rev", "<Drain as Iterator>::rev")
def listiter_rev(m, a, c):
    it = a[0]
    return ListIter(list(reversed(it.items[it.i:])))


_old_rev_next = M["<Rev as Iterator>::next"]


def _rev_next(m, a, c):
    it = deref(a[0])
    if isinstance(it, ListIter):
        if it.i < len(it.items):
            it.i += 1
            return some(it.items[it.i - 1])
        return none()
    return _old_rev_next(m, a, c)


M["<Rev as Iterator>::next"] = _rev_next


@model("Vec::drain")
def vec_drain(m, a, c):
    v = V(a[0])
    items = list(v.v)
    v.v[:] = []
    return ListIter(items)


@model("<Drain as Drop>::drop", "<Rev as Drop>::drop")
def drain_drop(m, a, c):
    return UNIT


@model("VecDeque::new")
def vecdeque_new(m, a, c):
    return VecM()


@model("VecDeque::is_empty")
def vecdeque_is_empty(m, a, c):
    return len(V(a[0]).v) == 0


@model("VecDeque::pop_front")
def vecdeque_pop_front(m, a, c):
    v = V(a[0])
    return some(v.v.pop(0)) if v.v else none()


@model("<TagSet as Fn>::call", "<P as Fn>::call", "<F as Fn>::call", "<TagSet as FnOnce>::call_once", "<P as FnOnce>::call_once")
def fn_call(m, a, c):
    f, args = a[0], a[1]
    argv = list(args.f) if isinstance(args, Tup) else ([] if args == UNIT else [args])
    return m.prog.call_closure(m, f, argv)


@model("core::str::<impl str>::bytes", "str::bytes")
def str_bytes_iter(m, a, c):
    return Iter(bytes_of(a[0]), "bytes")


@model("<Bytes as Iterator>::all")
def bytes_all(m, a, c):
    it = deref(a[0])
    for i in range(it.i, len(it.seq)):
        r = m.prog.call_closure(m, Ptr([a[1]], 0) if isinstance(a[1], Closure) else a[1], [it.seq[i]])
        if not m.branch_bool(r, "Iterator::all"):
            return False
    return True


@model("<Option as PartialEq>::ne")
def opt_ne(m, a, c):
    return b_not(opt_eq(m, a, c))


@model("Ref::map")
def ref_map2(m, a, c):
    return guard_map(m, a, c)


@model("tree_builder::NamespaceMapStack::new")
def tb_nsstack_new(m, a, c):
    # NamespaceMapStack(vec![NamespaceMap::default()]): the vec! expansion goes through Box<MaybeUninit<[T; 1]>>, which is
    # not worth interpreting; the element itself is built by the crate's own NamespaceMap::default
    f = m.prog.by_key.get("NamespaceMap::default")
    return Struct("NamespaceMapStack", [VecM([m.run_fn(f, [])])])


# ---------------------------------------------------------------- generic iterator protocol over the model iterators
# (so that a change that rewrites a loop with any/all/find/position/map/filter/rev stays inside the encoder's reach)
class MapIt:
    __slots__ = ("it", "clo")

    def __init__(self, it, clo):
        self.it, self.clo = it, clo


class EnumM:
    __slots__ = ("it", "n")

    def __init__(self, it):
        self.it, self.n = it, 0


def pull(m, it):
    """next item of any model iterator, or None when exhausted"""
    it = deref(it) if isinstance(it, Ptr) else it
    if isinstance(it, Iter):
        if it.kind == "revslice":
            if it.i > 0:
                it.i -= 1
                return Ptr(it.seq, it.i)
            return None
        if it.i < len(it.seq):
            it.i += 1
            return Ptr(it.seq, it.i - 1) if it.kind == "slice" else it.seq[it.i - 1]
        return None
    if isinstance(it, ListIter):
        if it.i < len(it.items):
            it.i += 1
            return it.items[it.i - 1]
        return None
    if isinstance(it, FilterM):
        while True:
            x = pull(m, it.it)
            if x is None:
                return None
            if m.branch_bool(m.prog.call_closure(m, Ptr([it.clo], 0), [Ptr([x], 0)]), "filter"):
                return x
    if isinstance(it, MapIt):
        x = pull(m, it.it)
        return None if x is None else m.prog.call_closure(m, Ptr([it.clo], 0), [x])
    if isinstance(it, EnumM):
        x = pull(m, it.it)
        if x is None:
            return None
        it.n += 1
        return Tup([it.n - 1, x])
    if isinstance(it, PeekM):
        if it.buf:
            return it.buf.pop(0)
        return pull(m, it.it)
    if isinstance(it, SkipM):
        while it.n > 0:
            it.n -= 1
            if pull(m, it.it) is None:
                return None
        return pull(m, it.it)
    if isinstance(it, TakeM):
        if it.n <= 0:
            return None
        it.n -= 1
        return pull(m, it.it)
    if isinstance(it, ChainIt):
        x = pull(m, it.a)
        return x if x is not None else pull(m, it.b)
    if isinstance(it, ClonedM):
        x = pull(m, it.it)
        return None if x is None else clone_val(deref(x) if isinstance(x, Ptr) else x)
    if isinstance(it, Struct):
        f = m.prog.by_key.get("<%s as Iterator>::next" % it.ty)
        if f is None:
            raise Unsupported("iteration over %r" % (it,))
        r = m.run_fn(f, [Ptr([it], 0)])
        return r.f[0] if r.variant == "Some" else None
    if isinstance(it, Enum) and it.ty == "Option":       # Option as an iterator (chain(Some(x)))
        if it.variant == "Some":
            x = it.f[0]
            it.variant, it.idx, it.f = "None", 0, []
            return x
        return None
    raise Unsupported("iteration over %r" % (it,))


class PeekM:
    __slots__ = ("it", "buf")

    def __init__(self, it):
        self.it, self.buf = it, []


class SkipM:
    __slots__ = ("it", "n")

    def __init__(self, it, n):
        self.it, self.n = it, n


class TakeM(SkipM):
    __slots__ = ()


class ChainIt:
    __slots__ = ("a", "b")

    def __init__(self, a, b):
        self.a, self.b = a, b


class ClonedM:
    __slots__ = ("it",)

    def __init__(self, it):
        self.it = it


def _is_model_iter(x):
    x = deref(x) if isinstance(x, Ptr) else x
    return isinstance(x, (Iter, ListIter, FilterM, MapIt, EnumM, PeekM, SkipM, ChainIt, ClonedM, Struct))


def _need_iter(a, c):
    if not _is_model_iter(a[0]):
        raise Unsupported("callee %s on %r" % (c, a[0]))


@model("*::any")
def g_any(m, a, c):
    _need_iter(a, c)
    while True:
        x = pull(m, a[0])
        if x is None:
            return False
        if m.branch_bool(m.prog.call_closure(m, Ptr([a[1]], 0), [x]), "any"):
            return True


@model("*::all")
def g_all(m, a, c):
    _need_iter(a, c)
    while True:
        x = pull(m, a[0])
        if x is None:
            return True
        if not m.branch_bool(m.prog.call_closure(m, Ptr([a[1]], 0), [x]), "all"):
            return False


@model("*::find")
def g_find(m, a, c):
    _need_iter(a, c)
    while True:
        x = pull(m, a[0])
        if x is None:
            return none()
        if m.branch_bool(m.prog.call_closure(m, Ptr([a[1]], 0), [Ptr([x], 0)]), "find"):
            return some(x)


@model("*::find_map")
def g_find_map(m, a, c):
    _need_iter(a, c)
    while True:
        x = pull(m, a[0])
        if x is None:
            return none()
        r = m.prog.call_closure(m, Ptr([a[1]], 0), [x])
        if r.variant == "Some":
            return r


@model("*::position")
def g_position(m, a, c):
    _need_iter(a, c)
    n = 0
    while True:
        x = pull(m, a[0])
        if x is None:
            return none()
        if m.branch_bool(m.prog.call_closure(m, Ptr([a[1]], 0), [x]), "position"):
            return some(n)
        n += 1


@model("*::count")
def g_count(m, a, c):
    _need_iter(a, c)
    n = 0
    while pull(m, a[0]) is not None:
        n += 1
    return n


@model("*::last")
def g_last(m, a, c):
    _need_iter(a, c)
    last = None
    while True:
        x = pull(m, a[0])
        if x is None:
            return none() if last is None else some(last)
        last = x


@model("*::for_each")
def g_for_each(m, a, c):
    _need_iter(a, c)
    while True:
        x = pull(m, a[0])
        if x is None:
            return UNIT
        m.prog.call_closure(m, Ptr([a[1]], 0), [x])


@model("*::map")
def g_map(m, a, c):
    _need_iter(a, c)
    return MapIt(a[0], a[1])


@model("*::enumerate")
def g_enumerate(m, a, c):
    _need_iter(a, c)
    return EnumM(a[0])


@model("*::filter")
def g_filter(m, a, c):
    _need_iter(a, c)
    return FilterM(a[0], a[1])


@model("*::rev")
def g_rev(m, a, c):
    _need_iter(a, c)
    it = a[0]
    if isinstance(it, Iter) and it.kind in ("slice",):
        r = Iter(it.seq, "revslice")
        r.i = len(it.seq)
        return r
    items = []
    while True:
        x = pull(m, it)
        if x is None:
            break
        items.append(x)
    return ListIter(items[::-1])


@model("*::into_iter")
def g_into_iter(m, a, c):
    if isinstance(a[0], Struct):
        return a[0]                # a crate type that implements Iterator: the blanket IntoIterator is the identity
    _need_iter(a, c)
    return a[0]


@model("*::next")
def g_next(m, a, c):
    _need_iter(a, c)
    x = pull(m, a[0])
    return none() if x is None else some(x)


@model("*::collect")
def g_collect(m, a, c):
    _need_iter(a, c)
    tgt = c.rsplit("collect::<", 1)[-1] if "collect::<" in c else c
    items = []
    while True:
        x = pull(m, a[0])
        if x is None:
            break
        items.append(x)
    if tgt.startswith(("HashSet", "std::collections::HashSet", "BTreeSet")):
        st_ = SetM()
        for x in items:
            if not any(m.branch_bool(val_eq(y, x), "collect into set") for y in st_.items):
                st_.items.append(x)
        return st_
    if "Vec" not in tgt and "Vec" not in c:
        raise Unsupported("collect into %s" % c)
    return VecM(items)


# FilterM over the older Iter-only model
def _filter_next2(m, a, c):
    x = pull(m, a[0])
    return none() if x is None else some(x)


M["<Filter as Iterator>::next"] = _filter_next2
M["<Map as Iterator>::next"] = _filter_next2
M["<Enumerate as Iterator>::next"] = _filter_next2


# ---------------------------------------------------------------- str patterns
def _pattern_pred(m, pat):
    """-> function(char) -> bool/z3 for a char, &[char], [char; N] or closure pattern; None for a &str pattern"""
    p = deref(pat) if isinstance(pat, Ptr) else pat
    if isinstance(p, int) or is_sym(p):
        return lambda ch: ch_eq(ch, p)
    if isinstance(p, (Arr, VecM, Slice)):
        items = list(seq_of(p))
        return lambda ch: b_or(*[ch_eq(ch, q) for q in items])
    if isinstance(p, Closure):
        return lambda ch: m.prog.call_closure(m, Ptr([p], 0), [ch])
    return None


@model("core::str::<impl str>::contains", "str::contains")
def str_contains(m, a, c):
    s = as_str(a[0]).ch
    pred = _pattern_pred(m, a[1])
    if pred is not None:
        for ch in s:
            if m.branch_bool(pred(ch), "str::contains"):
                return True
        return False
    n = as_str(a[1]).ch
    for i in range(len(s) - len(n) + 1):
        if m.branch_bool(seq_eq(s[i:i + len(n)], n), "str::contains"):
            return True
    return len(n) == 0


@model("core::str::<impl str>::find", "str::find")
def str_find(m, a, c):
    s = as_str(a[0]).ch
    pred = _pattern_pred(m, a[1])
    off = 0
    if pred is not None:
        for ch in s:
            if m.branch_bool(pred(ch), "str::find"):
                return some(off)
            off += char_len(ch)
        return none()
    n = as_str(a[1]).ch
    for i in range(len(s) - len(n) + 1):
        if m.branch_bool(seq_eq(s[i:i + len(n)], n), "str::find"):
            return some(off)
        off += char_len(s[i])
    return none()


@model("core::str::<impl str>::starts_with", "str::starts_with")
def str_starts_with(m, a, c):
    s = as_str(a[0]).ch
    pred = _pattern_pred(m, a[1])
    if pred is not None:
        return bool(s) and m.branch_bool(pred(s[0]), "str::starts_with")
    n = as_str(a[1]).ch
    return len(n) <= len(s) and m.branch_bool(seq_eq(s[:len(n)], n), "str::starts_with")


@model("core::str::<impl str>::ends_with", "str::ends_with")
def str_ends_with(m, a, c):
    s = as_str(a[0]).ch
    pred = _pattern_pred(m, a[1])
    if pred is not None:
        return bool(s) and m.branch_bool(pred(s[-1]), "str::ends_with")
    n = as_str(a[1]).ch
    return len(n) <= len(s) and m.branch_bool(seq_eq(s[len(s) - len(n):], n), "str::ends_with")


# ---------------------------------------------------------------- more of the container API (association-list maps / sets, Vec)
def _items(mp):
    mp = deref(mp)
    if not isinstance(mp, MapM):
        raise Unsupported("expected a map, got %r" % (mp,))
    if "items" not in mp.d and mp.d:
        raise Unsupported("profiling map used with a symbolic-key operation")
    return mp.d.setdefault("items", [])


for _k in ("get", "contains_key", "insert", "iter", "new"):
    if "BTreeMap::" + _k in M:
        M.setdefault("HashMap::" + _k, M["BTreeMap::" + _k])
M.setdefault("<HashMap as Default>::default", M["BTreeMap::new"])
M.setdefault("<BTreeMap as Default>::default", M["BTreeMap::new"])


@model("BTreeMap::remove", "HashMap::remove")
def map_remove(m, a, c):
    items = _items(a[0])
    k = deref(a[1])
    for i, it in enumerate(items):
        if m.branch_bool(val_eq(it[0], k), "Map::remove key"):
            del items[i]
            return some(it[1])
    return none()


@model("BTreeMap::len", "HashMap::len")
def map_len(m, a, c):
    return len(_items(a[0]))


@model("BTreeMap::is_empty", "HashMap::is_empty")
def map_is_empty(m, a, c):
    return len(_items(a[0])) == 0


@model("BTreeMap::clear", "HashMap::clear")
def map_clear(m, a, c):
    _items(a[0])[:] = []
    return UNIT


@model("BTreeMap::keys", "HashMap::keys")
def map_keys(m, a, c):
    return ListIter([Ptr(it, 0) for it in _items(a[0])])


@model("BTreeMap::values", "HashMap::values")
def map_values(m, a, c):
    return ListIter([Ptr(it, 1) for it in _items(a[0])])


_old_get_mut = M["BTreeMap::get_mut"]


def _map_get_mut(m, a, c):
    mp = deref(a[0])
    if "items" in mp.d:
        k = deref(a[1])
        for it in mp.d["items"]:
            if m.branch_bool(val_eq(it[0], k), "Map::get_mut key"):
                return some(Ptr(it, 1))
        return none()
    return _old_get_mut(m, a, c)


M["BTreeMap::get_mut"] = _map_get_mut
M["HashMap::get_mut"] = _map_get_mut


@model("HashSet::remove")
def hashset_remove(m, a, c):
    s_ = deref(a[0])
    for i, it in enumerate(s_.items):
        if m.branch_bool(val_eq(it, a[1]), "HashSet::remove"):
            del s_.items[i]
            return True
    return False


@model("HashSet::len")
def hashset_len(m, a, c):
    return len(deref(a[0]).items)


@model("HashSet::is_empty")
def hashset_is_empty(m, a, c):
    return len(deref(a[0]).items) == 0


@model("HashSet::clear")
def hashset_clear(m, a, c):
    deref(a[0]).items[:] = []
    return UNIT


@model("Vec::remove")
def vec_remove(m, a, c):
    if is_sym(a[1]):
        raise Unsupported("symbolic Vec::remove index")
    v = V(a[0]).v
    if a[1] >= len(v):
        raise Panic("Vec::remove index out of bounds")
    return v.pop(a[1])


@model("Vec::swap_remove")
def vec_swap_remove(m, a, c):
    if is_sym(a[1]):
        raise Unsupported("symbolic Vec::swap_remove index")
    v = V(a[0]).v
    if a[1] >= len(v):
        raise Panic("Vec::swap_remove index out of bounds")
    x = v[a[1]]
    v[a[1]] = v[-1]
    v.pop()
    return x


@model("Vec::truncate")
def vec_truncate(m, a, c):
    if is_sym(a[1]):
        raise Unsupported("symbolic Vec::truncate length")
    v = V(a[0]).v
    del v[a[1]:]
    return UNIT


@model("Vec::clear")
def vec_clear(m, a, c):
    V(a[0]).v[:] = []
    return UNIT


@model("Vec::with_capacity")
def vec_with_capacity(m, a, c):
    return VecM([])


@model("Vec::reserve", "Vec::shrink_to_fit")
def vec_reserve(m, a, c):
    return UNIT


@model("core::slice::<impl [T]>::first")
def slice_first(m, a, c):
    s_ = seq_of(a[0])
    return some(Ptr(s_, 0)) if s_ else none()


@model("core::slice::<impl [T]>::contains")
def slice_contains(m, a, c):
    for x in seq_of(a[0]):
        if m.branch_bool(val_eq(x, a[1]), "slice::contains"):
            return True
    return False


@model("Vec::retain")
def vec_retain(m, a, c):
    v = V(a[0]).v
    keep = []
    for i in range(len(v)):
        if m.branch_bool(m.prog.call_closure(m, Ptr([a[1]], 0), [Ptr(v, i)]), "Vec::retain"):
            keep.append(v[i])
    v[:] = keep
    return UNIT


@model("Vec::dedup_by")
def vec_dedup_by(m, a, c):
    # same_bucket(&mut current, &mut last_kept): true removes `current` (std's documented order of the two arguments)
    v = V(a[0]).v
    keep = []
    for i in range(len(v)):
        if keep and m.branch_bool(m.prog.call_closure(m, Ptr([a[1]], 0), [Ptr(v, i), Ptr(keep, len(keep) - 1)]), "Vec::dedup_by"):
            continue
        keep.append(v[i])
    v[:] = keep
    return UNIT


@model("Vec::dedup")
def vec_dedup(m, a, c):
    v = V(a[0]).v
    keep = []
    for i in range(len(v)):
        if keep and m.branch_bool(val_eq(v[i], keep[-1]), "Vec::dedup"):
            continue
        keep.append(v[i])
    v[:] = keep
    return UNIT


@model("Vec::extend", "<Vec as Extend>::extend")
def vec_extend(m, a, c):
    v = V(a[0]).v
    src = a[1]
    if _is_model_iter(src):
        while True:
            x = pull(m, src)
            if x is None:
                return UNIT
            v.append(x)
    v.extend(list(seq_of(src)))
    return UNIT


from . import domsink  # noqa: E402  (TreeSink model DOM; registers its models over the recorder above)


# ---------------------------------------------------------------- Default by type text (Cell / RefCell are transparent)
def default_of_type(m, ty):
    ty = ty.strip()
    mm = re.match(r"^(?:std::cell::|core::cell::)?(?:RefCell|Cell)<(.*)>$", ty)
    if mm:
        return default_of_type(m, mm.group(1))
    head = re.sub(r"^(?:\w+::)*", "", ty.split("<", 1)[0])
    if head in ("Vec", "VecDeque"):
        return VecM()
    if head == "Option":
        return none()
    if head == "bool":
        return False
    if head in ("u8", "u16", "u32", "u64", "usize", "i8", "i16", "i32", "i64", "isize"):
        return 0
    if head in ("Tendril", "StrTendril"):
        return Tendril()
    if head in ("HashSet",):
        return SetM()
    if head in ("BTreeMap", "HashMap"):
        return MapM()
    f = m.prog.by_key.get("<%s as Default>::default" % head)
    if f is not None:
        return m.run_fn(f, [])
    raise Unsupported("Default for type %s" % ty)


@model("<RefCell as Default>::default", "<Cell as Default>::default")
def cell_default(m, a, c):
    mm = re.match(r"^<(.*) as (?:std::default::)?Default>::default$", c.strip())
    if not mm:
        raise Unsupported("Default callee %s" % c)
    return default_of_type(m, mm.group(1))


@model("Ref::filter_map", "RefMut::filter_map")
def guard_filter_map(m, a, c):
    g, clo = a
    r = m.prog.call_closure(m, clo, [g.p])
    if r.variant == "Some":
        ng = Guard(r.f[0], g.cellkey, g.mut)
        g.alive = False
        return Enum("Result", "Ok", 0, [ng])
    return Enum("Result", "Err", 1, [g])


# ---------------------------------------------------------------- more Option / Result combinators
def _call1(m, clo, args):
    return m.prog.call_closure(m, clo if isinstance(clo, (Ptr, Closure, FnPtr)) else Ptr([clo], 0), args)


@model("Option::unwrap_or_else")
def option_unwrap_or_else(m, a, c):
    return a[0].f[0] if a[0].variant == "Some" else _call1(m, a[1], [])


@model("Option::unwrap_or_default")
def option_unwrap_or_default(m, a, c):
    if a[0].variant == "Some":
        return a[0].f[0]
    mm = re.match(r"^Option::<(.*)>::unwrap_or_default", c.strip())
    return default_of_type(m, mm.group(1)) if mm else 0


@model("Option::is_some_and")
def option_is_some_and(m, a, c):
    return m.branch_bool(_call1(m, a[1], [a[0].f[0]]), "is_some_and") if a[0].variant == "Some" else False


@model("Option::is_none_or")
def option_is_none_or(m, a, c):
    return m.branch_bool(_call1(m, a[1], [a[0].f[0]]), "is_none_or") if a[0].variant == "Some" else True


@model("Option::map_or")
def option_map_or(m, a, c):
    return _call1(m, a[2], [a[0].f[0]]) if a[0].variant == "Some" else a[1]


@model("Option::map_or_else")
def option_map_or_else(m, a, c):
    return _call1(m, a[2], [a[0].f[0]]) if a[0].variant == "Some" else _call1(m, a[1], [])


@model("Option::or_else")
def option_or_else(m, a, c):
    return a[0] if a[0].variant == "Some" else _call1(m, a[1], [])


@model("Option::or")
def option_or(m, a, c):
    return a[0] if a[0].variant == "Some" else a[1]


@model("Option::and")
def option_and(m, a, c):
    return a[1] if a[0].variant == "Some" else none()


@model("Option::filter")
def option_filter(m, a, c):
    if a[0].variant == "Some" and m.branch_bool(_call1(m, a[1], [Ptr([a[0].f[0]], 0)]), "Option::filter"):
        return a[0]
    return none()


@model("Option::ok_or")
def option_ok_or(m, a, c):
    return Enum("Result", "Ok", 0, [a[0].f[0]]) if a[0].variant == "Some" else Enum("Result", "Err", 1, [a[1]])


@model("Option::ok_or_else")
def option_ok_or_else(m, a, c):
    return Enum("Result", "Ok", 0, [a[0].f[0]]) if a[0].variant == "Some" else Enum("Result", "Err", 1, [_call1(m, a[1], [])])


@model("Option::replace")
def option_replace(m, a, c):
    p = deref_ptr(a[0])
    old = p.load()
    p.store(some(a[1]))
    return old


@model("Option::insert", "Option::get_or_insert")
def option_insert(m, a, c):
    p = deref_ptr(a[0])
    cur = p.load()
    if c.split("::")[-1].startswith("get_or_insert") and cur.variant == "Some":
        return Ptr(cur.f, 0)
    v = some(a[1])
    p.store(v)
    return Ptr(v.f, 0)


@model("Result::ok")
def result_ok(m, a, c):
    return some(a[0].f[0]) if a[0].variant == "Ok" else none()


@model("Result::err")
def result_err(m, a, c):
    return some(a[0].f[0]) if a[0].variant == "Err" else none()


@model("Result::is_ok")
def result_is_ok(m, a, c):
    return deref(a[0]).variant == "Ok"


@model("Result::is_err")
def result_is_err(m, a, c):
    return deref(a[0]).variant == "Err"


@model("Result::map")
def result_map(m, a, c):
    return Enum("Result", "Ok", 0, [_call1(m, a[1], [a[0].f[0]])]) if a[0].variant == "Ok" else a[0]


@model("Result::map_err")
def result_map_err(m, a, c):
    return Enum("Result", "Err", 1, [_call1(m, a[1], [a[0].f[0]])]) if a[0].variant == "Err" else a[0]


@model("Result::unwrap_or_else")
def result_unwrap_or_else(m, a, c):
    return a[0].f[0] if a[0].variant == "Ok" else _call1(m, a[1], [a[0].f[0]])


# ---------------------------------------------------------------- more char / u8 classification
def _eqk(x, k):
    """x == k for a value of any width"""
    return (x == k) if isinstance(x, int) else (x == z3.BitVecVal(k, x.size()))


def _cls(name, pred):
    def f(m, a, c, _p=pred):
        return _p(deref(a[0]))
    M["char::methods::<impl char>::" + name] = f
    M.setdefault("core::num::<impl u8>::" + name, f)


_cls("is_ascii_whitespace", lambda x: b_or(_eqk(x, 0x20), _eqk(x, 0x09), _eqk(x, 0x0A), _eqk(x, 0x0C), _eqk(x, 0x0D)))
_cls("is_ascii_uppercase", lambda x: in_range(x, 65, 90))
_cls("is_ascii_lowercase", lambda x: in_range(x, 97, 122))
_cls("is_ascii_hexdigit", lambda x: b_or(in_range(x, 48, 57), in_range(x, 65, 70), in_range(x, 97, 102)))
_cls("is_ascii_punctuation", lambda x: b_or(in_range(x, 33, 47), in_range(x, 58, 64), in_range(x, 91, 96), in_range(x, 123, 126)))
_cls("is_ascii_control", lambda x: b_or(in_range(x, 0, 31), _eqk(x, 127)))
_cls("is_ascii_graphic", lambda x: in_range(x, 33, 126))
lower_ascii = ascii_lower


@model("*::eq")
def g_eq(m, a, c):
    return val_eq(a[0], a[1])


@model("*::ne")
def g_ne(m, a, c):
    return b_not(val_eq(a[0], a[1]))


@model("*::peekable")
def g_peekable(m, a, c):
    _need_iter(a, c)
    return PeekM(a[0])


@model("Peekable::peek")
def peekable_peek(m, a, c):
    it = deref(a[0])
    if not it.buf:
        x = pull(m, it.it)
        if x is None:
            return none()
        it.buf.append(x)
    return some(Ptr(it.buf, 0))


@model("*::skip")
def g_skip(m, a, c):
    _need_iter(a, c)
    if is_sym(a[1]):
        raise Unsupported("symbolic skip count")
    return SkipM(a[0], a[1])


@model("*::take")
def g_take(m, a, c):
    _need_iter(a, c)
    if is_sym(a[1]):
        raise Unsupported("symbolic take count")
    return TakeM(a[0], a[1])


@model("*::cloned", "*::copied")
def g_cloned(m, a, c):
    _need_iter(a, c)
    return ClonedM(a[0])


@model("*::rposition")
def g_rposition(m, a, c):
    _need_iter(a, c)
    items = []
    while True:
        x = pull(m, a[0])
        if x is None:
            break
        items.append(x)
    for i in range(len(items) - 1, -1, -1):
        if m.branch_bool(m.prog.call_closure(m, Ptr([a[1]], 0), [items[i]]), "rposition"):
            return some(i)
    return none()


for _n in ("Peekable", "Skip", "Take", "Cloned", "Copied", "Chain", "Map", "Enumerate", "Filter"):
    M.setdefault("<%s as Iterator>::next" % _n, g_next)
    M.setdefault("<%s as IntoIterator>::into_iter" % _n, g_into_iter)


@model("Tendril::pop_front_char_run")
def tendril_pop_front_char_run(m, a, c):
    t = T(a[0])
    if not t.ch:
        return none()
    clo = a[1]
    cls = _call1(m, clo, [t.ch[0]])
    n = 1
    while n < len(t.ch):
        k = _call1(m, clo, [t.ch[n]])
        if not m.branch_bool(val_eq(k, cls), "char run class"):
            break
        n += 1
    run = Tendril(t.ch[:n])
    t.ch[:] = t.ch[n:]
    return some(Tup([run, cls]))


@model("<Vec as Index>::index", "<Vec as IndexMut>::index_mut", "<VecDeque as Index>::index", "<VecDeque as IndexMut>::index_mut")
def vec_index(m, a, c):
    v = V(a[0]).v
    i = a[1]
    if is_sym(i):
        raise Unsupported("symbolic Vec index")
    if isinstance(i, Struct):
        raise Unsupported("Vec range index %r" % (i,))
    if not 0 <= i < len(v):
        raise Panic("index out of bounds: the len is %d but the index is %d" % (len(v), i))
    return Ptr(v, i)


@model("core::str::<impl str>::eq_ignore_ascii_case", "str::eq_ignore_ascii_case", "string_cache::atom::Atom::eq_ignore_ascii_case", "Atom::eq_ignore_ascii_case")
def str_eq_ignore_ascii_case(m, a, c):
    x, y = as_str(a[0]).ch, as_str(a[1]).ch
    return seq_eq([ascii_lower(q) for q in x], [ascii_lower(q) for q in y])


@model("std::str::<impl str>::to_ascii_lowercase", "alloc::str::<impl str>::to_ascii_lowercase", "str::to_ascii_lowercase")
def str_to_ascii_lowercase(m, a, c):
    return Str([ascii_lower(q) for q in as_str(a[0]).ch])


def _ord_key(v):
    """derived Ord on concrete values (Option: None < Some; strings by code points)"""
    v = deref(v)
    if isinstance(v, Enum):
        return (v.idx,) + tuple(_ord_key(x) for x in v.f)
    if isinstance(v, (Struct, Tup)):
        return tuple(_ord_key(x) for x in v.f)
    if isinstance(v, (Atom, Tendril, Str)):
        if not all(isinstance(q, int) for q in v.ch):
            raise Unsupported("ordering of symbolic strings")
        return tuple(v.ch)
    if isinstance(v, (int, bool)):
        return int(v)
    raise Unsupported("ordering of %r" % (v,))


@model("slice::<impl [T]>::sort", "core::slice::<impl [T]>::sort", "alloc::slice::<impl [T]>::sort", "core::slice::<impl [T]>::sort_unstable")
def slice_sort(m, a, c):
    s_ = seq_of(a[0])
    items = sorted(list(s_), key=_ord_key)
    for i, x in enumerate(items):
        s_[i] = x
    return UNIT


def _attr_concrete(v):
    try:
        for at in V(v).v:
            _ord_key(at)
        return True
    except Unsupported:
        return False


@model("Tag::equiv_modulo_attr_order")
def tag_equiv_modulo_attr_order(m, a, c):
    x, y = deref(a[0]), deref(a[1])
    f = m.prog.by_key.get("Tag::equiv_modulo_attr_order")
    if f is not None and _attr_concrete(x.f[3]) and _attr_concrete(y.f[3]):
        return m.run_fn(f, a)          # concrete attributes: the crate's own code (clone, sort, compare)
    # symbolic attribute names / values: sorted lists are equal iff the lists are equal as multisets
    if not m.branch_bool(b_and(val_eq(x.f[0], y.f[0]), val_eq(x.f[1], y.f[1])), "tag kind and name"):
        return False
    xs, ys = list(V(x.f[3]).v), list(V(y.f[3]).v)
    if len(xs) != len(ys):
        return False
    for at in xs:
        for j, bt in enumerate(ys):
            if m.branch_bool(val_eq(at, bt), "attribute equal"):
                del ys[j]
                break
        else:
            return False
    return True


@model("VecDeque::push_back")
def vecdeque_push_back(m, a, c):
    V(a[0]).v.append(a[1])
    return UNIT


@model("VecDeque::push_front")
def vecdeque_push_front(m, a, c):
    V(a[0]).v.insert(0, a[1])
    return UNIT


@model("VecDeque::pop_back")
def vecdeque_pop_back(m, a, c):
    v = V(a[0])
    return some(v.v.pop()) if v.v else none()


@model("VecDeque::len")
def vecdeque_len(m, a, c):
    return len(V(a[0]).v)


@model("Box::new_uninit")
def box_new_uninit(m, a, c):
    return Ptr([UninitCell()], 0)


@model("std::boxed::box_assume_init_into_vec_unsafe", "box_assume_init_into_vec_unsafe", "alloc::boxed::box_assume_init_into_vec_unsafe")
def box_into_vec(m, a, c):
    cell = a[0].load()
    arr = cell.slot[0]
    if arr is None:
        raise Panic("vec! payload read before it was written")
    return VecM(list(arr.f))


@model("<str as SliceExt>::to_tendril")
def str_to_tendril(m, a, c):
    return Tendril(list(as_str(a[0]).ch))


@model("util::str::to_escaped_string", "to_escaped_string")
def to_escaped_string(m, a, c):
    return Opaque("escaped-string")          # Debug formatting for parse-error messages; only ever handed to the sink


@model("<VecDeque as Default>::default")
def vecdeque_default(m, a, c):
    return VecM()


M["<VecDeque as Extend>::extend"] = M["Vec::extend"]
M["VecDeque::extend"] = M["Vec::extend"]
M["VecDeque::reserve"] = M["Vec::reserve"]
