"""A model DOM behind the TreeSink interface, with a monitor for the documented calling contract.

The tree builders are generic over their sink; in the MIR every sink call is `<Sink as TreeSink>::method`.  These models
give those calls a meaning: an abstract DOM (what any faithful sink would hold) plus a check, per call, of what the
TreeSink trait documents the tree builder promises.  Handles are small integers.

state (m.notes["tree"]):
  next      next handle
  nodes     handle -> {"kind", "name", "attrs", "parent", "children", "text", "template", "of_template", "flags"}
  names     handle -> QualName value (elements only; kept for the XML check)
  calls     every sink call in order (the XML check reads the create_element entries)
  contract  list of contract violations (strings)
  quirks    last set_quirks_mode value
  doctypes  number of doctypes appended
"""
from .interp import Struct, Enum, Tup, Ptr, UNIT, Panic, is_sym
from . import models as MD
from .models import model, deref, clone_val, Unsupported, some, none, val_eq, seq_eq, Atom, Tendril, VecM

HTML_NS = [ord(c) for c in "http://www.w3.org/1999/xhtml"]
MATHML_NS = [ord(c) for c in "http://www.w3.org/1998/Math/MathML"]


def state(m):
    st = m.notes.get("tree")
    if st is None:
        st = m.notes["tree"] = {"next": 1, "names": {}, "calls": []}
    if "nodes" not in st:
        st.update({"nodes": {0: node("document")}, "contract": [], "quirks": None, "doctypes": 0, "created": {0}})
    return st


def node(kind, **kw):
    d = {"kind": kind, "name": None, "attrs": [], "parent": None, "children": [], "text": None, "template": None,
         "of_template": None, "flags": {}}
    d.update(kw)
    return d


def new(st, kind, **kw):
    if kind in ("text", "doctype"):
        # nodes the tree builder never holds a handle to: their ids come from a separate (negative) space, so that options
        # which add or drop such a node do not renumber the handles the builder sees
        st["hidden"] = st.get("hidden", 0) - 1
        h = st["hidden"]
        st["nodes"][h] = node(kind, **kw)
        return h
    h = st["next"]
    st["next"] += 1
    st["nodes"][h] = node(kind, **kw)
    st["created"].add(h)
    return h


def H(x):
    x = deref(x)
    if not isinstance(x, int):
        raise Unsupported("sink handle %r" % (x,))
    return x


def bad(st, msg):
    st["contract"].append(msg)


def known(st, h, what):
    if h not in st["nodes"]:
        bad(st, "%s: handle %r was not created by this sink" % (what, h))
        return False
    return True


def is_ancestor_or_self(st, a, n):
    """a is n or an ancestor of n (template contents count as children of their template)"""
    seen = 0
    while n is not None and seen < 10000:
        if n == a:
            return True
        nd = st["nodes"][n]
        n = nd["parent"] if nd["parent"] is not None else nd["of_template"]
        seen += 1
    return False


def detach(st, h):
    p = st["nodes"][h]["parent"]
    if p is not None:
        st["nodes"][p]["children"].remove(h)
        st["nodes"][h]["parent"] = None


def describe(st, h):
    nd = st["nodes"].get(h)
    if nd is None:
        return "?%r" % (h,)
    if nd["kind"] == "element":
        return "<%s>#%d" % ("".join(chr(c) if isinstance(c, int) else "?" for c in nd["name"].f[2].ch), h)
    return "%s#%d" % (nd["kind"], h)


def text_of(child):
    t = child.f[0]
    return list(deref(t).ch if not isinstance(t, Tendril) else t.ch)


def insert(st, parent, index, child, what):
    """insert NodeOrText at children[index] of parent (index None = append), merging adjacent text"""
    pn = st["nodes"][parent]
    kids = pn["children"]
    if index is None:
        index = len(kids)
    if child.variant == "AppendText":
        t = text_of(child)
        if index > 0 and st["nodes"][kids[index - 1]]["kind"] == "text":
            st["nodes"][kids[index - 1]]["text"].extend(t)
            return
        h = new(st, "text", text=t, parent=parent)
        kids.insert(index, h)
        return
    h = H(child.f[0])
    if not known(st, h, what):
        return
    if is_ancestor_or_self(st, h, parent):
        bad(st, "%s: %s inserted under itself or one of its descendants (%s)" % (what, describe(st, h), describe(st, parent)))
        return
    st["nodes"][h]["parent"] = parent
    kids.insert(index, h)


@model("<Sink as TreeSink>::get_document")
def ts_get_document(m, a, c):
    state(m)
    return 0


@model("markup5ever::interface::create_element", "interface::create_element", "create_element",
       "markup5ever::interface::create_element_with_flags", "interface::create_element_with_flags", "create_element_with_flags",
       "<Sink as TreeSink>::create_element")
def ts_create_element(m, a, c):
    st = state(m)
    name, attrs = a[1], a[2]
    flags = {}
    if c.split("::")[-1].startswith("create_element_with_flags") or "create_element_with_flags" in c:
        flags["had_duplicate_attributes"] = a[3]
    elif "TreeSink" in c and len(a) > 3:
        fl = a[3]
        flags = {"template": fl.f[0], "mathml_annotation_xml_integration_point": fl.f[1], "had_duplicate_attributes": fl.f[2]}
    ns, local = name.f[1].ch, name.f[2].ch
    al = [clone_val(x) for x in attrs.v]
    # attribute lists handed to the sink never contain one qualified name twice
    for i in range(len(al)):
        for j in range(i):
            e = val_eq(al[i].f[0], al[j].f[0])
            if m.branch_bool(e, "duplicate attribute name"):
                bad(st, "create_element: the attribute list contains the qualified name of attribute %d twice" % i)
    h = new(st, "element", name=clone_val(name), attrs=al, flags=flags)
    if "template" not in flags:
        is_t = MD.b_and(seq_eq(ns, HTML_NS), seq_eq(local, [ord(x) for x in "template"]))
        flags["template"] = m.branch_bool(is_t, "template element")
        is_ax = MD.b_and(seq_eq(ns, MATHML_NS), seq_eq(local, [ord(x) for x in "annotation-xml"]))
        flags["mathml_annotation_xml_integration_point"] = False
        if m.branch_bool(is_ax, "annotation-xml element"):
            for at in al:
                q, v = at.f[0], at.f[1]
                if len(q.f[1].ch) == 0 and m.branch_bool(seq_eq(q.f[2].ch, [ord(x) for x in "encoding"]), "encoding attribute"):
                    low = [MD.lower_ascii(x) for x in v.ch] if hasattr(MD, "lower_ascii") else None
                    if low is None:
                        raise Unsupported("annotation-xml encoding attribute")
                    for want in ("text/html", "application/xhtml+xml"):
                        if m.branch_bool(seq_eq(low, [ord(x) for x in want]), "encoding value"):
                            flags["mathml_annotation_xml_integration_point"] = True
    if flags.get("template"):
        f = new(st, "fragment", of_template=h)
        st["nodes"][h]["template"] = f
    st["names"][h] = name
    st["calls"].append(("create_element", h, clone_val(name), [clone_val(x) for x in attrs.v]))
    return h


@model("<Sink as TreeSink>::create_comment")
def ts_create_comment(m, a, c):
    st = state(m)
    h = new(st, "comment", text=list(deref(a[1]).ch if not isinstance(a[1], Tendril) else a[1].ch))
    st["calls"].append(("create_comment", h, Tendril(list(st["nodes"][h]["text"]))))
    return h


@model("<Sink as TreeSink>::create_pi")
def ts_create_pi(m, a, c):
    st = state(m)
    h = new(st, "pi")
    st["calls"].append(("create_pi", h))
    return h


@model("<Sink as TreeSink>::append")
def ts_append(m, a, c):
    st = state(m)
    p, child = H(a[1]), a[2]
    st["calls"].append(("append", p, child.variant, child.f[0] if child.variant == "AppendNode" else Tendril(text_of(child))))
    if not known(st, p, "append"):
        return UNIT
    if st["nodes"][p]["kind"] not in ("document", "element", "fragment"):
        bad(st, "append: parent %s cannot have children" % describe(st, p))
    if child.variant == "AppendNode":
        h = H(child.f[0])
        if known(st, h, "append") and st["nodes"][h]["parent"] is not None:
            bad(st, "append: child %s already has a parent (%s)" % (describe(st, h), describe(st, st["nodes"][h]["parent"])))
            detach(st, h)
    insert(st, p, None, child, "append")
    return UNIT


@model("<Sink as TreeSink>::append_before_sibling")
def ts_append_before_sibling(m, a, c):
    st = state(m)
    sib, child = H(a[1]), a[2]
    st["calls"].append(("append_before_sibling", sib, child.variant, child.f[0] if child.variant == "AppendNode" else Tendril(text_of(child))))
    if not known(st, sib, "append_before_sibling"):
        return UNIT
    sn = st["nodes"][sib]
    if sn["kind"] == "text":
        bad(st, "append_before_sibling: the reference sibling %s is a text node" % describe(st, sib))
    if sn["parent"] is None:
        bad(st, "append_before_sibling: the reference sibling %s has no parent" % describe(st, sib))
        return UNIT
    if child.variant == "AppendNode":
        h = H(child.f[0])
        if h == sib:
            bad(st, "append_before_sibling: node inserted before itself (%s)" % describe(st, h))
            return UNIT
        if known(st, h, "append_before_sibling"):
            detach(st, h)          # "new_node may have an old parent, from which it should be removed"
    parent = sn["parent"]
    insert(st, parent, st["nodes"][parent]["children"].index(sib), child, "append_before_sibling")
    return UNIT


@model("<Sink as TreeSink>::append_based_on_parent_node")
def ts_append_based_on_parent_node(m, a, c):
    st = state(m)
    el, prev, child = H(a[1]), H(a[2]), a[3]
    if known(st, el, "append_based_on_parent_node") and st["nodes"][el]["parent"] is not None:
        return ts_append_before_sibling(m, [a[0], a[1], child], c)
    return ts_append(m, [a[0], a[2], child], c)


@model("<Sink as TreeSink>::append_doctype_to_document")
def ts_append_doctype(m, a, c):
    st = state(m)
    st["calls"].append(("append_doctype_to_document",) + tuple(Tendril(list(deref(x).ch if not isinstance(x, Tendril) else x.ch)) for x in a[1:4]))
    st["doctypes"] += 1
    if st["doctypes"] > 1:
        bad(st, "append_doctype_to_document: a second doctype is appended")
    if any(st["nodes"][k]["kind"] == "element" for k in st["nodes"][0]["children"]):
        bad(st, "append_doctype_to_document: the document already has an element child")
    h = new(st, "doctype", parent=0, text=[list(deref(x).ch if not isinstance(x, Tendril) else x.ch) for x in a[1:4]])
    st["nodes"][0]["children"].append(h)
    return UNIT


@model("<Sink as TreeSink>::pop")
def ts_pop(m, a, c):
    st = state(m)
    st["calls"].append(("pop", H(a[1])))
    return UNIT


@model("<Sink as TreeSink>::parse_error")
def ts_parse_error(m, a, c):
    st = state(m)
    st["calls"].append(("parse_error", repr(a[1:])))
    return UNIT


@model("<Sink as TreeSink>::set_current_line")
def ts_set_current_line(m, a, c):
    return UNIT


@model("<Sink as TreeSink>::set_quirks_mode")
def ts_set_quirks_mode(m, a, c):
    st = state(m)
    st["quirks"] = a[1].variant
    st["calls"].append(("set_quirks_mode", a[1].variant))
    return UNIT


@model("<Sink as TreeSink>::same_node")
def ts_same_node(m, a, c):
    state(m)["calls"].append(("same_node", H(a[1]), H(a[2])))
    return H(a[1]) == H(a[2])


def need_element(st, h, what):
    if not known(st, h, what):
        return False
    if st["nodes"][h]["kind"] != "element":
        bad(st, "%s called on %s, which is not an element" % (what, describe(st, h)))
        return False
    return True


@model("<Sink as TreeSink>::elem_name")
def ts_elem_name(m, a, c):
    st = state(m)
    h = H(a[1])
    st["calls"].append(("elem_name", h))
    if not need_element(st, h, "elem_name"):
        raise Panic("TreeSink contract: elem_name called on %s, which is not an element created by this sink" % describe(st, h))
    return MD.ElemNameM(st["nodes"][h]["name"])


@model("<ElemName as ElemName>::ns", "<<Sink as TreeSink>::ElemName as ElemName>::ns")
def en_ns(m, a, c):
    x = deref(a[0]) if not isinstance(a[0], MD.ElemNameM) else a[0]
    return Ptr(x.q.f, 1)


@model("<Sink as TreeSink>::get_template_contents")
def ts_get_template_contents(m, a, c):
    st = state(m)
    h = H(a[1])
    st["calls"].append(("get_template_contents", h))
    if not need_element(st, h, "get_template_contents") or st["nodes"][h]["template"] is None:
        bad(st, "get_template_contents called on %s, which is not a template element" % describe(st, h))
        raise Panic("TreeSink contract: get_template_contents on a non-template node")
    return st["nodes"][h]["template"]


@model("<Sink as TreeSink>::add_attrs_if_missing")
def ts_add_attrs_if_missing(m, a, c):
    st = state(m)
    h = H(a[1])
    st["calls"].append(("add_attrs_if_missing", h))
    if not need_element(st, h, "add_attrs_if_missing"):
        return UNIT
    have = st["nodes"][h]["attrs"]
    new_ = list(deref(a[2]).v) if not isinstance(a[2], VecM) else list(a[2].v)
    for i in range(len(new_)):
        for j in range(i):
            if m.branch_bool(val_eq(new_[i].f[0], new_[j].f[0]), "duplicate attribute name"):
                bad(st, "add_attrs_if_missing: the attribute list contains one qualified name twice")
    for at in new_:
        if not any(m.branch_bool(val_eq(at.f[0], o.f[0]), "attribute present") for o in have):
            have.append(clone_val(at))
    return UNIT


@model("<Sink as TreeSink>::remove_from_parent")
def ts_remove_from_parent(m, a, c):
    st = state(m)
    h = H(a[1])
    st["calls"].append(("remove_from_parent", h))
    if known(st, h, "remove_from_parent"):
        detach(st, h)
    return UNIT


@model("<Sink as TreeSink>::reparent_children")
def ts_reparent_children(m, a, c):
    st = state(m)
    n, p = H(a[1]), H(a[2])
    st["calls"].append(("reparent_children", n, p))
    if not (known(st, n, "reparent_children") and known(st, p, "reparent_children")):
        return UNIT
    if is_ancestor_or_self(st, n, p) and n != p and st["nodes"][n]["children"]:
        # the new parent is inside the subtree whose children move: a child would become its own ancestor
        inside = [k for k in st["nodes"][n]["children"] if is_ancestor_or_self(st, k, p)]
        if inside:
            bad(st, "reparent_children: new parent %s lies inside a moved child of %s" % (describe(st, p), describe(st, n)))
            return UNIT
    # the children move as they are (no text merging at the seam: that is what RcDom does, and what makes an adjacency
    # produced by the tree builder visible to the C06 check)
    kids = list(st["nodes"][n]["children"])
    st["nodes"][n]["children"] = []
    for k in kids:
        st["nodes"][k]["parent"] = p
        st["nodes"][p]["children"].append(k)
    return UNIT


@model("<Sink as TreeSink>::mark_script_already_started")
def ts_mark_script(m, a, c):
    st = state(m)
    h = H(a[1])
    st["calls"].append(("mark_script_already_started", h))
    if need_element(st, h, "mark_script_already_started"):
        if not m.branch_bool(seq_eq(st["nodes"][h]["name"].f[2].ch, [ord(x) for x in "script"]), "script element"):
            bad(st, "mark_script_already_started called on %s, which is not a script element" % describe(st, h))
    return UNIT


@model("<Sink as TreeSink>::associate_with_form")
def ts_associate_with_form(m, a, c):
    st = state(m)
    t, f = H(a[1]), H(a[2])
    st["calls"].append(("associate_with_form", t, f))
    if need_element(st, t, "associate_with_form (target)") and need_element(st, f, "associate_with_form (form)"):
        if not m.branch_bool(seq_eq(st["nodes"][f]["name"].f[2].ch, [ord(x) for x in "form"]), "form element"):
            bad(st, "associate_with_form: the form argument %s is not a form element" % describe(st, f))
    return UNIT


@model("<Sink as TreeSink>::is_mathml_annotation_xml_integration_point")
def ts_is_mathml_ip(m, a, c):
    st = state(m)
    h = H(a[1])
    st["calls"].append(("is_mathml_annotation_xml_integration_point", h))
    if not need_element(st, h, "is_mathml_annotation_xml_integration_point"):
        return False
    return bool(st["nodes"][h]["flags"].get("mathml_annotation_xml_integration_point"))


@model("<Sink as TreeSink>::allow_declarative_shadow_roots")
def ts_allow_dsr(m, a, c):
    return bool(m.notes.get("sink_allow_shadow_roots", True))


@model("<Sink as TreeSink>::attach_declarative_shadow")
def ts_attach_shadow(m, a, c):
    st = state(m)
    loc, tmpl = H(a[1]), H(a[2])
    st["calls"].append(("attach_declarative_shadow", loc, tmpl))
    need_element(st, loc, "attach_declarative_shadow (location)")
    need_element(st, tmpl, "attach_declarative_shadow (template)")
    return bool(m.notes.get("sink_attach_shadow", False))


def _local_is(m, nd, name):
    return nd["kind"] == "element" and m.branch_bool(seq_eq(nd["name"].f[2].ch, [ord(x) for x in name]), "element named " + name)


def _has_attr(m, nd, name):
    return any(m.branch_bool(seq_eq(a.f[0].f[2].ch, [ord(x) for x in name]), "attribute named " + name) for a in nd["attrs"])


def _clone_subtree(st, h, parent):
    src = st["nodes"][h]
    st["hidden"] = st.get("hidden", 0) - 1
    n = st["hidden"]
    st["nodes"][n] = node(src["kind"], name=src["name"], attrs=[clone_val(a) for a in src["attrs"]], parent=parent,
                          text=(list(src["text"]) if isinstance(src["text"], list) else src["text"]), flags=dict(src["flags"]))
    st["nodes"][n]["children"] = [_clone_subtree(st, k, n) for k in src["children"]]
    return n


@model("<Sink as TreeSink>::maybe_clone_an_option_into_selectedcontent")
def ts_clone_option(m, a, c):
    """WHATWG 'maybe clone an option into selectedcontent' (selectedness approximated by the selected attribute, as RcDom does)"""
    st = state(m)
    h = H(a[1])
    st["calls"].append(("maybe_clone_an_option_into_selectedcontent", h))
    if not need_element(st, h, "maybe_clone_an_option_into_selectedcontent"):
        return UNIT
    N = st["nodes"]
    if not m.branch_bool(seq_eq(N[h]["name"].f[2].ch, [ord(x) for x in "option"]), "option element"):
        bad(st, "maybe_clone_an_option_into_selectedcontent called on %s, which is not an option element" % describe(st, h))
        return UNIT
    # option element nearest ancestor select
    select, seen_optgroup, cur = None, False, N[h]["parent"]
    while cur is not None:
        nd = N[cur]
        if nd["kind"] == "element":
            if _local_is(m, nd, "datalist") or _local_is(m, nd, "hr") or _local_is(m, nd, "option"):
                break
            if _local_is(m, nd, "optgroup"):
                if seen_optgroup:
                    break
                seen_optgroup = True
            if _local_is(m, nd, "select"):
                select = cur
                break
        cur = nd["parent"]
    if select is None or _has_attr(m, N[select], "multiple"):
        return UNIT
    # first selectedcontent descendant of select in tree order
    target, stack = None, list(reversed(N[select]["children"]))
    while stack:
        k = stack.pop()
        if _local_is(m, N[k], "selectedcontent"):
            target = k
            break
        stack.extend(reversed(N[k]["children"]))
    if target is None or not _has_attr(m, N[h], "selected"):
        return UNIT
    for k in N[target]["children"]:
        N[k]["parent"] = None
    N[target]["children"] = [_clone_subtree(st, k, target) for k in N[h]["children"]]
    return UNIT


@model("<dyn Tracer as Tracer>::trace_handle", "<Tracer as Tracer>::trace_handle")
def tracer_trace_handle(m, a, c):
    m.notes.setdefault("traced", []).append(H(a[1]))
    return UNIT


# ---------------------------------------------------------------- reading the model DOM
def dump(st, h=0, depth=0, out=None):
    out = [] if out is None else out
    nd = st["nodes"][h]
    show = lambda ch: "".join(chr(c) if isinstance(c, int) and 32 <= c < 127 else ("\\u{%x}" % c if isinstance(c, int) else "?") for c in ch)
    if nd["kind"] == "element":
        q = nd["name"]
        out.append("%s<%s %s>%s" % ("  " * depth, show(q.f[1].ch).rsplit("/", 1)[-1], show(q.f[2].ch),
                                    "".join(" %s=%s" % (show(a.f[0].f[2].ch), show(a.f[1].ch)) for a in nd["attrs"])))
    elif nd["kind"] in ("text", "comment"):
        out.append("%s%s %r" % ("  " * depth, nd["kind"], show(nd["text"])))
    else:
        out.append("%s%s" % ("  " * depth, nd["kind"]))
    for k in nd["children"]:
        dump(st, k, depth + 1, out)
    if nd["template"] is not None:
        dump(st, nd["template"], depth + 1, out)
    return out


def canon(st):
    """the tree in the line form of the native `htmldoc` replay (only for concrete trees)"""
    hx = lambda ch: bytes(ch).decode("latin1").encode("utf-8").hex() if all(c < 256 for c in ch) else "".join(chr(c) for c in ch).encode("utf-8").hex()
    out = []

    def walk(h, d):
        nd = st["nodes"][h]
        k = nd["kind"]
        if k == "document":
            out.append("%d document" % d)
        elif k == "doctype":
            out.append("%d doctype %s" % (d, "|".join(hx(x) for x in nd["text"])))
        elif k == "text":
            out.append("%d text %s" % (d, hx(nd["text"])))
        elif k == "comment":
            out.append("%d comment %s" % (d, hx(nd["text"])))
        elif k == "pi":
            out.append("%d pi" % d)
        elif k == "element":
            q = nd["name"]
            out.append("%d elem %s:%s [%s]" % (d, hx(q.f[1].ch), hx(q.f[2].ch), " ".join(
                "%s:%s=%s" % (hx(a.f[0].f[1].ch), hx(a.f[0].f[2].ch), hx(a.f[1].ch)) for a in nd["attrs"])))
            if nd["template"] is not None:
                out.append("%d content" % (d + 1))
                for c in st["nodes"][nd["template"]]["children"]:
                    walk(c, d + 2)
        for c in nd["children"]:
            walk(c, d + 1)
    walk(0, 0)
    out.append("quirks %s" % (st["quirks"] or "NoQuirks"))
    return out
