//! Native replay: runs the *real* html5ever / xml5ever tokenizers on a concrete case and
//! prints what the sink observed, in the canonical text form that engine M also produces.
//!
//! Case (stdin), one directive per line:
//!   mode html|xml
//!   state Data | RawData:Rcdata | RawData:ScriptDataEscaped:Escaped | ...   (html; xml: state name)
//!   exact_errors 0|1   discard_bom 0|1   profile 0|1
//!   last_start_tag <hex of utf-8> | -
//!   on_start Continue|Plaintext|Script|RawData:<kind>
//!   foreign 0|1
//!   chunk <hex of utf-8>         (repeated, may be empty)
//!   inject <hex of utf-8>        (text pushed to the front of the input at each Script suspension)
//!   end 0|1
use std::cell::RefCell;
use std::io::Read;

use html5ever::tokenizer::states as hs;
use html5ever::tokenizer::{
    BufferQueue, Tag, TagKind, Token, TokenSink, TokenSinkResult, Tokenizer, TokenizerOpts,
};
use markup5ever::TokenizerResult;
use tendril::StrTendril;

fn unhex(s: &str) -> Vec<u8> {
    (0..s.len() / 2).map(|i| u8::from_str_radix(&s[2 * i..2 * i + 2], 16).unwrap()).collect()
}

fn cps(s: &str) -> String {
    s.chars().map(|c| format!("{:x}", c as u32)).collect::<Vec<_>>().join(",")
}

fn raw_kind(p: &[&str]) -> hs::RawKind {
    match p[0] {
        "Rcdata" => hs::Rcdata,
        "Rawtext" => hs::Rawtext,
        "ScriptData" => hs::ScriptData,
        "ScriptDataEscaped" => hs::ScriptDataEscaped(esc_kind(p[1])),
        x => panic!("raw kind {x}"),
    }
}
fn esc_kind(s: &str) -> hs::ScriptEscapeKind {
    match s {
        "Escaped" => hs::Escaped,
        "DoubleEscaped" => hs::DoubleEscaped,
        x => panic!("escape kind {x}"),
    }
}
fn id_kind(s: &str) -> hs::DoctypeIdKind {
    match s {
        "Public" => hs::Public,
        "System" => hs::System,
        x => panic!("id kind {x}"),
    }
}
fn attr_kind(s: &str) -> hs::AttrValueKind {
    match s {
        "Unquoted" => hs::Unquoted,
        "SingleQuoted" => hs::SingleQuoted,
        "DoubleQuoted" => hs::DoubleQuoted,
        x => panic!("attr kind {x}"),
    }
}

fn html_state(spec: &str) -> hs::State {
    let p: Vec<&str> = spec.split(':').collect();
    match p[0] {
        "Data" => hs::Data,
        "Plaintext" => hs::Plaintext,
        "TagOpen" => hs::TagOpen,
        "EndTagOpen" => hs::EndTagOpen,
        "TagName" => hs::TagName,
        "RawData" => hs::RawData(raw_kind(&p[1..])),
        "RawLessThanSign" => hs::RawLessThanSign(raw_kind(&p[1..])),
        "RawEndTagOpen" => hs::RawEndTagOpen(raw_kind(&p[1..])),
        "RawEndTagName" => hs::RawEndTagName(raw_kind(&p[1..])),
        "ScriptDataEscapeStart" => hs::ScriptDataEscapeStart(esc_kind(p[1])),
        "ScriptDataEscapeStartDash" => hs::ScriptDataEscapeStartDash,
        "ScriptDataEscapedDash" => hs::ScriptDataEscapedDash(esc_kind(p[1])),
        "ScriptDataEscapedDashDash" => hs::ScriptDataEscapedDashDash(esc_kind(p[1])),
        "ScriptDataDoubleEscapeEnd" => hs::ScriptDataDoubleEscapeEnd,
        "BeforeAttributeName" => hs::BeforeAttributeName,
        "AttributeName" => hs::AttributeName,
        "AfterAttributeName" => hs::AfterAttributeName,
        "BeforeAttributeValue" => hs::BeforeAttributeValue,
        "AttributeValue" => hs::AttributeValue(attr_kind(p[1])),
        "AfterAttributeValueQuoted" => hs::AfterAttributeValueQuoted,
        "SelfClosingStartTag" => hs::SelfClosingStartTag,
        "BogusComment" => hs::BogusComment,
        "MarkupDeclarationOpen" => hs::MarkupDeclarationOpen,
        "CommentStart" => hs::CommentStart,
        "CommentStartDash" => hs::CommentStartDash,
        "Comment" => hs::Comment,
        "CommentLessThanSign" => hs::CommentLessThanSign,
        "CommentLessThanSignBang" => hs::CommentLessThanSignBang,
        "CommentLessThanSignBangDash" => hs::CommentLessThanSignBangDash,
        "CommentLessThanSignBangDashDash" => hs::CommentLessThanSignBangDashDash,
        "CommentEndDash" => hs::CommentEndDash,
        "CommentEnd" => hs::CommentEnd,
        "CommentEndBang" => hs::CommentEndBang,
        "Doctype" => hs::Doctype,
        "BeforeDoctypeName" => hs::BeforeDoctypeName,
        "DoctypeName" => hs::DoctypeName,
        "AfterDoctypeName" => hs::AfterDoctypeName,
        "AfterDoctypeKeyword" => hs::AfterDoctypeKeyword(id_kind(p[1])),
        "BeforeDoctypeIdentifier" => hs::BeforeDoctypeIdentifier(id_kind(p[1])),
        "DoctypeIdentifierDoubleQuoted" => hs::DoctypeIdentifierDoubleQuoted(id_kind(p[1])),
        "DoctypeIdentifierSingleQuoted" => hs::DoctypeIdentifierSingleQuoted(id_kind(p[1])),
        "AfterDoctypeIdentifier" => hs::AfterDoctypeIdentifier(id_kind(p[1])),
        "BetweenDoctypePublicAndSystemIdentifiers" => hs::BetweenDoctypePublicAndSystemIdentifiers,
        "BogusDoctype" => hs::BogusDoctype,
        "CdataSection" => hs::CdataSection,
        "CdataSectionBracket" => hs::CdataSectionBracket,
        "CdataSectionEnd" => hs::CdataSectionEnd,
        x => panic!("state {x}"),
    }
}

struct HSink {
    out: RefCell<Vec<String>>,
    on_start: String,
    foreign: bool,
}

impl TokenSink for HSink {
    type Handle = ();
    fn process_token(&self, token: Token, line: u64) -> TokenSinkResult<()> {
        let mut is_start = false;
        let s = match &token {
            Token::CharacterTokens(t) => format!("Chars {}", cps(t)),
            Token::NullCharacterToken => "Null".to_string(),
            Token::EOFToken => "EOF".to_string(),
            Token::CommentToken(t) => format!("Comment {}", cps(t)),
            Token::ParseError(_) => "Error".to_string(),
            Token::DoctypeToken(d) => {
                let o = |x: &Option<StrTendril>| match x {
                    Some(t) => format!("[{}]", cps(t)),
                    None => "-".to_string(),
                };
                format!("Doctype {} {} {} {}", o(&d.name), o(&d.public_id), o(&d.system_id), d.force_quirks)
            },
            Token::TagToken(Tag { kind, name, self_closing, attrs, had_duplicate_attributes }) => {
                is_start = *kind == TagKind::StartTag;
                let a: Vec<String> = attrs
                    .iter()
                    .map(|a| format!("{}={}", cps(&a.name.local), cps(&a.value)))
                    .collect();
                format!(
                    "Tag {} [{}] {} [{}] {}",
                    if is_start { "StartTag" } else { "EndTag" },
                    cps(name),
                    self_closing,
                    a.join(" "),
                    had_duplicate_attributes
                )
            },
        };
        self.out.borrow_mut().push(format!("{s} @{line}"));
        if is_start {
            let p: Vec<&str> = self.on_start.split(':').collect();
            return match p[0] {
                "Continue" => TokenSinkResult::Continue,
                "Plaintext" => TokenSinkResult::Plaintext,
                "Script" => TokenSinkResult::Script(()),
                "RawData" => TokenSinkResult::RawData(raw_kind(&p[1..])),
                x => panic!("on_start {x}"),
            };
        }
        TokenSinkResult::Continue
    }
    fn adjusted_current_node_present_but_not_in_html_namespace(&self) -> bool {
        self.foreign
    }
}

mod monitor;
mod xml;

/// serializer events (one per line: `ev start|end|text ...`) through the real XmlSerializer, then the output through the
/// real XML parser into an RcDom; prints the serialized text and the (namespace, local name) of every element / attribute
fn xmlser(inp: &str) {
    use markup5ever::serialize::Serializer;
    use markup5ever_rcdom::{Handle, NodeData, RcDom};
    use tendril::TendrilSink;
    use xml5ever::serialize::XmlSerializer;
    use xml5ever::{LocalName, Namespace, Prefix, QualName};
    fn qn(p: &str, u: &str, l: &str) -> QualName {
        QualName::new(if p == "-" { None } else { Some(Prefix::from(p)) }, Namespace::from(if u == "-" { "" } else { u }), LocalName::from(l))
    }
    let mut out: Vec<u8> = vec![];
    {
        let mut ser = XmlSerializer::new(&mut out);
        for l in inp.lines() {
            let f: Vec<&str> = l.split(' ').collect();
            if f[0] != "ev" {
                continue;
            }
            match f[1] {
                "start" => {
                    let name = qn(f[2], f[3], f[4]);
                    let mut attrs: Vec<(QualName, String)> = vec![];
                    let mut i = 5;
                    while i + 3 < f.len() {
                        attrs.push((qn(f[i], f[i + 1], f[i + 2]), String::from_utf8(unhex(f[i + 3])).unwrap()));
                        i += 4;
                    }
                    ser.start_elem(name, attrs.iter().map(|(n, v)| (n, &v[..]))).unwrap();
                },
                "end" => ser.end_elem(qn(f[2], f[3], f[4])).unwrap(),
                "text" => ser.write_text(&String::from_utf8(unhex(f[2])).unwrap()).unwrap(),
                x => panic!("event {x}"),
            }
        }
    }
    let text = String::from_utf8(out).unwrap();
    println!("ser {}", text.as_bytes().iter().map(|b| format!("{b:02x}")).collect::<String>());
    let dom: RcDom = xml5ever::driver::parse_document(RcDom::default(), Default::default()).one(&text[..]);
    fn walk(h: &Handle) {
        match &h.data {
            NodeData::Element { name, attrs, .. } => {
                let mut a: Vec<String> = attrs
                    .borrow()
                    .iter()
                    .filter(|a| &*a.name.ns != "http://www.w3.org/2000/xmlns/")
                    .map(|a| format!("{{{}}}{}={}", &*a.name.ns, &*a.name.local, a.value.as_bytes().iter().map(|b| format!("{b:02x}")).collect::<String>()))
                    .collect();
                a.sort();
                println!("elem {{{}}}{} [{}]", &*name.ns, &*name.local, a.join(" "));
            },
            NodeData::Text { contents } => println!("text {}", contents.borrow().as_bytes().iter().map(|b| format!("{b:02x}")).collect::<String>()),
            _ => {},
        }
        for c in h.children.borrow().iter() {
            walk(c);
        }
        if let NodeData::Element { .. } = &h.data {
            println!("end");
        }
    }
    walk(&dom.document);
}

/// text chunks (`hchunk <hex>`) through the real html5ever parser (document, or fragment with `context <ns hex> <local hex>`)
/// into an RcDom; prints the tree in the canonical line form the model DOM of engine M is dumped in
fn htmldoc(inp: &str) {
    use html5ever::driver::{parse_document, ParseOpts};
    use html5ever::tree_builder::{QuirksMode, TreeBuilderOpts};
    use html5ever::{Attribute, LocalName, Namespace, QualName};
    use markup5ever_rcdom::{Handle, NodeData};
    use tendril::TendrilSink;
    fn s(h: &str) -> String {
        String::from_utf8(unhex(h)).unwrap()
    }
    fn hx(b: &[u8]) -> String {
        b.iter().map(|b| format!("{b:02x}")).collect::<String>()
    }
    let mut tbo = TreeBuilderOpts::default();
    let mut chunks: Vec<String> = vec![];
    let mut context: Option<QualName> = None;
    let mut cattrs: Vec<Attribute> = vec![];
    let mut form = true;
    let mut with_form = false;
    let mut detach: Vec<(usize, usize)> = vec![];
    for l in inp.lines() {
        let f: Vec<&str> = l.split(' ').collect();
        match f[0] {
            "scripting" => tbo.scripting_enabled = f[1] == "1",
            "srcdoc" => tbo.iframe_srcdoc = f[1] == "1",
            "tbexact" => tbo.exact_errors = f[1] == "1",
            "dropdoctype" => tbo.drop_doctype = f[1] == "1",
            "ctxscripting" => form = f[1] == "1",
            "form" => with_form = f[1] == "1",
            "detach" => detach.push((f[1].parse().unwrap(), f[2].parse().unwrap())),
            "quirks" => {
                tbo.quirks_mode = match f[1] {
                    "Quirks" => QuirksMode::Quirks,
                    "LimitedQuirks" => QuirksMode::LimitedQuirks,
                    _ => QuirksMode::NoQuirks,
                }
            },
            "context" => context = Some(QualName::new(None, Namespace::from(&*s(f[1])), LocalName::from(&*s(f[2])))),
            "cattr" => cattrs.push(Attribute { name: QualName::new(None, Namespace::from(""), LocalName::from(&*s(f[1]))), value: StrTendril::from_slice(&s(f[2])) }),
            "hchunk" => chunks.push(s(f.get(1).copied().unwrap_or(""))),
            _ => {},
        }
    }
    let opts = ParseOpts { tree_builder: tbo, ..Default::default() };
    // the parse runs over the monitoring sink (contract + trace bookkeeping); the tree is RcDom's
    let p = match context {
        Some(c) => {
            let sink = monitor::Mon::new();
            let ctx = html5ever::tree_builder::create_element(&sink, c, cattrs);
            let fe = if with_form {
                Some(html5ever::tree_builder::create_element(&sink, QualName::new(None, Namespace::from("http://www.w3.org/1999/xhtml"), LocalName::from("form")), vec![]))
            } else {
                None
            };
            html5ever::driver::parse_fragment_for_element(sink, opts, ctx, form, fe)
        },
        None => parse_document(monitor::Mon::new(), opts),
    };
    let mut scripts = 0usize;
    let pause = |p: &html5ever::driver::Parser<monitor::Mon>, kind: &str| {
        let col = monitor::Collect(std::cell::RefCell::new(vec![]));
        p.tokenizer.sink.trace_handles(&col);
        p.tokenizer.sink.sink.pause(kind, &col.0.borrow());
    };
    for c in &chunks {
        // (Parser::process resumes at once after a script; the pause that matters for C18 is observable at the chunk
        // boundary, and per script through the single-stepping below)
        p.input_buffer.push_back(StrTendril::from_slice(c));
        loop {
            match p.tokenizer.feed(&p.input_buffer) {
                TokenizerResult::Done => break,
                TokenizerResult::Script(_) => {
                    scripts += 1;
                    for (pk, ei) in &detach {
                        if *pk == scripts {
                            p.tokenizer.sink.sink.script_detach(*ei);
                        }
                    }
                    pause(&p, "Script result")
                },
                TokenizerResult::EncodingIndicator(l) => {
                    println!("indicator {}", hx(l.as_bytes()));
                    pause(&p, "EncodingIndicator result")
                },
            }
        }
        pause(&p, "chunk boundary");
    }
    let mon = p.finish();
    for b in mon.bad.borrow().iter() {
        println!("contract {b}");
    }
    for b in mon.trace_bad.borrow().iter() {
        println!("trace {b}");
    }
    let dom = &mon.dom;
    fn walk(h: &Handle, d: usize) {
        match &h.data {
            NodeData::Document => println!("{d} document"),
            NodeData::Doctype { name, public_id, system_id } => println!("{d} doctype {}|{}|{}", hx(name.as_bytes()), hx(public_id.as_bytes()), hx(system_id.as_bytes())),
            NodeData::Text { contents } => println!("{d} text {}", hx(contents.borrow().as_bytes())),
            NodeData::Comment { contents } => println!("{d} comment {}", hx(contents.as_bytes())),
            NodeData::ProcessingInstruction { .. } => println!("{d} pi"),
            NodeData::Element { name, attrs, template_contents, .. } => {
                let a: Vec<String> =
                    attrs.borrow().iter().map(|a| format!("{}:{}={}", hx(a.name.ns.as_bytes()), hx(a.name.local.as_bytes()), hx(a.value.as_bytes()))).collect();
                println!("{d} elem {}:{} [{}]", hx(name.ns.as_bytes()), hx(name.local.as_bytes()), a.join(" "));
                if let Some(t) = template_contents.borrow().as_ref() {
                    println!("{} content", d + 1);
                    for c in t.children.borrow().iter() {
                        walk(c, d + 2);
                    }
                }
            },
        }
        for c in h.children.borrow().iter() {
            walk(c, d + 1);
        }
    }
    walk(&dom.document, 0);
    println!("quirks {:?}", dom.quirks_mode.get());
    println!("errors {}", dom.errors.borrow().len());
}

/// tag tokens (one per line: `tag <kind> <prefix|-> <local hex> {<prefix|-> <local hex> <value hex>}`) straight into the
/// real XmlTreeBuilder over an RcDom; prints every element with its namespace and its attributes in document order
fn xmltree(inp: &str) {
    use markup5ever_rcdom::{Handle, NodeData, RcDom};
    use xml5ever::tokenizer::{Tag, TagKind, Token, TokenSink};
    use xml5ever::tree_builder::XmlTreeBuilder;
    use xml5ever::{Attribute, LocalName, Namespace, Prefix, QualName};
    fn s(h: &str) -> String {
        String::from_utf8(unhex(h)).unwrap()
    }
    fn qn(p: &str, l: &str) -> QualName {
        QualName::new(if p == "-" { None } else { Some(Prefix::from(&*s(p))) }, Namespace::from(""), LocalName::from(&*s(l)))
    }
    let tb = XmlTreeBuilder::new(RcDom::default(), Default::default());
    for l in inp.lines() {
        let f: Vec<&str> = l.split(' ').collect();
        if f[0] != "tag" {
            continue;
        }
        let kind = match f[1] {
            "StartTag" => TagKind::StartTag,
            "EndTag" => TagKind::EndTag,
            "EmptyTag" => TagKind::EmptyTag,
            "ShortTag" => TagKind::ShortTag,
            x => panic!("kind {x}"),
        };
        let mut attrs = vec![];
        let mut i = 4;
        while i + 2 < f.len() {
            attrs.push(Attribute { name: qn(f[i], f[i + 1]), value: StrTendril::from_slice(&s(f[i + 2])) });
            i += 3;
        }
        tb.process_token(Token::Tag(Tag { kind, name: qn(f[2], f[3]), attrs }));
    }
    tb.process_token(Token::EndOfFile);
    tb.end();
    fn hx(b: &[u8]) -> String {
        b.iter().map(|b| format!("{b:02x}")).collect::<String>()
    }
    fn walk(h: &Handle) {
        if let NodeData::Element { name, attrs, .. } = &h.data {
            let a: Vec<String> = attrs
                .borrow()
                .iter()
                .map(|a| format!("{}:{}:{}={}", a.name.prefix.as_ref().map(|p| hx(p.as_bytes())).unwrap_or("-".into()), hx(a.name.ns.as_bytes()), hx(a.name.local.as_bytes()), hx(a.value.as_bytes())))
                .collect();
            println!("elem {}:{}:{} [{}]", name.prefix.as_ref().map(|p| hx(p.as_bytes())).unwrap_or("-".into()), hx(name.ns.as_bytes()), hx(name.local.as_bytes()), a.join(" "));
        }
        for c in h.children.borrow().iter() {
            walk(c);
        }
    }
    walk(&tb.sink.document);
}

/// raw byte chunks through the real tendril::stream::Utf8LossyDecoder: prints what the inner sink received and how
/// many times error() was called
fn decode(chunks: &[Vec<u8>]) {
    use std::borrow::Cow;
    use tendril::stream::{TendrilSink, Utf8LossyDecoder};
    use tendril::{fmt, ByteTendril};
    struct Rec(Vec<u8>, u32);
    impl TendrilSink<fmt::UTF8> for Rec {
        fn process(&mut self, t: StrTendril) {
            self.0.extend_from_slice(t.as_bytes());
        }
        fn error(&mut self, _: Cow<'static, str>) {
            self.1 += 1;
        }
        type Output = (Vec<u8>, u32);
        fn finish(self) -> (Vec<u8>, u32) {
            (self.0, self.1)
        }
    }
    let mut d = Utf8LossyDecoder::new(Rec(vec![], 0));
    for c in chunks {
        d.process(ByteTendril::from_slice(&c[..]));
    }
    let (out, errs) = d.finish();
    let hex: String = out.iter().map(|b| format!("{b:02x}")).collect();
    println!("out {hex} errors {errs}");
}

/// `<meta http-equiv=content-type content="...">` through the real tokenizer + tree builder: prints the label of the
/// EncodingIndicator that feed() returns, or "none".
fn meta(content: &str) {
    use html5ever::tree_builder::TreeBuilder;
    use markup5ever_rcdom::RcDom;
    let esc = content.replace('&', "&amp;").replace('"', "&quot;");
    let tb = TreeBuilder::new(RcDom::default(), Default::default());
    let tok = Tokenizer::new(tb, Default::default());
    let q = BufferQueue::default();
    q.push_back(StrTendril::from_slice(&format!("<meta http-equiv=content-type content=\"{esc}\">")));
    let mut n = 0;
    loop {
        match tok.feed(&q) {
            TokenizerResult::Done => {
                println!("none");
                break;
            },
            TokenizerResult::EncodingIndicator(l) => {
                println!("label:{}", &*l);
                break;
            },
            TokenizerResult::Script(_) => {},
        }
        n += 1;
        if n > 8 {
            println!("none");
            break;
        }
    }
}

fn main() {
    let mut inp = String::new();
    std::io::stdin().read_to_string(&mut inp).unwrap();
    let mut mode = "html".to_string();
    let mut state = "Data".to_string();
    let (mut exact, mut bom, mut profile, mut end, mut foreign) = (false, true, false, true, false);
    let mut last: Option<String> = None;
    let mut on_start = "Continue".to_string();
    let mut chunks: Vec<String> = vec![];
    let mut inject: Option<String> = None;
    let mut content = String::new();
    let mut raw_chunks: Vec<Vec<u8>> = vec![];
    for l in inp.lines() {
        let mut it = l.splitn(2, ' ');
        let k = it.next().unwrap();
        let v = it.next().unwrap_or("").trim();
        match k {
            "mode" => mode = v.to_string(),
            "state" => state = v.to_string(),
            "exact_errors" => exact = v == "1",
            "discard_bom" => bom = v == "1",
            "profile" => profile = v == "1",
            "foreign" => foreign = v == "1",
            "end" => end = v == "1",
            "last_start_tag" => last = if v == "-" { None } else { Some(String::from_utf8(unhex(v)).unwrap()) },
            "on_start" => on_start = v.to_string(),
            "chunk" => chunks.push(String::from_utf8(unhex(v)).unwrap()),
            "inject" => inject = Some(String::from_utf8(unhex(v)).unwrap()),
            "content" => content = String::from_utf8(unhex(v)).unwrap(),
            "bytes" => raw_chunks.push(unhex(v)),
            "ev" | "tag" | "scripting" | "srcdoc" | "quirks" | "context" | "cattr" | "hchunk" | "ctxscripting" | "form" | "detach" | "tbexact" | "dropdoctype" => {},
            "" => {},
            x => panic!("directive {x}"),
        }
    }
    if mode == "xmlser" {
        xmlser(&inp);
        return;
    }
    if mode == "xmltree" {
        xmltree(&inp);
        return;
    }
    if mode == "htmldoc" {
        htmldoc(&inp);
        return;
    }
    if mode == "decode" {
        decode(&raw_chunks);
        return;
    }
    if mode == "meta" {
        meta(&content);
        return;
    }
    if mode == "xml" {
        xml::run(&state, exact, bom, profile, &chunks, end);
        return;
    }
    let sink = HSink { out: RefCell::new(vec![]), on_start, foreign };
    let tok = Tokenizer::new(
        sink,
        TokenizerOpts {
            exact_errors: exact,
            discard_bom: bom,
            profile,
            initial_state: Some(html_state(&state)),
            last_start_tag_name: last,
        },
    );
    let q = BufferQueue::default();
    let mut feeds: Vec<&str> = vec![];
    for c in &chunks {
        q.push_back(StrTendril::from_slice(c));
        let mut guard = 0;
        loop {
            match tok.feed(&q) {
                TokenizerResult::Done => {
                    feeds.push("Done");
                    break;
                },
                TokenizerResult::Script(_) => {
                    feeds.push("Script");
                    if let Some(i) = &inject {
                        q.push_front(StrTendril::from_slice(i));
                    }
                },
                TokenizerResult::EncodingIndicator(_) => feeds.push("EncodingIndicator"),
            }
            guard += 1;
            if guard > 8 {
                break;
            }
        }
        if !q.is_empty() {
            feeds.push("QUEUE-NOT-EMPTY");
        }
    }
    if end {
        tok.end();
    }
    for l in tok.sink.out.borrow().iter() {
        println!("{l}");
    }
    println!("feeds {}", feeds.join(","));
}
