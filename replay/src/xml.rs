//! xml5ever tokenizer replay (filled in with the XML checks)
pub fn run(_state: &str, _exact: bool, _bom: bool, _profile: bool, _chunks: &[String], _end: bool) {
    println!("xml replay not built yet");
}
