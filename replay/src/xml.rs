//! xml5ever tokenizer replay: same canonical text form as the HTML one (line numbers are always 0:
//! the XML token sink gets none).
use std::cell::RefCell;

use markup5ever::buffer_queue::BufferQueue;
use markup5ever::TokenizerResult;
use tendril::StrTendril;
use xml5ever::tokenizer::states as xs;
use xml5ever::tokenizer::{ProcessResult, Tag, TagKind, Token, TokenSink, XmlTokenizer, XmlTokenizerOpts};
use xml5ever::QualName;

fn cps(s: &str) -> String {
    s.chars().map(|c| format!("{:x}", c as u32)).collect::<Vec<_>>().join(",")
}

fn qn(q: &QualName) -> String {
    match &q.prefix {
        Some(p) => format!("{}:{}", cps(p), cps(&q.local)),
        None => cps(&q.local),
    }
}

fn xml_state(spec: &str) -> xs::XmlState {
    let p: Vec<&str> = spec.split(':').collect();
    let avk = |s: &str| match s {
        "Unquoted" => xs::AttrValueKind::Unquoted,
        "SingleQuoted" => xs::AttrValueKind::SingleQuoted,
        "DoubleQuoted" => xs::AttrValueKind::DoubleQuoted,
        x => panic!("attr kind {x}"),
    };
    let dk = |s: &str| match s {
        "Public" => xs::DoctypeKind::Public,
        "System" => xs::DoctypeKind::System,
        x => panic!("doctype kind {x}"),
    };
    use xs::XmlState::*;
    match p[0] {
        "Data" => Data,
        "TagState" => TagState,
        "EndTagState" => EndTagState,
        "EndTagName" => EndTagName,
        "EndTagNameAfter" => EndTagNameAfter,
        "Pi" => Pi,
        "PiTarget" => PiTarget,
        "PiTargetAfter" => PiTargetAfter,
        "PiData" => PiData,
        "PiAfter" => PiAfter,
        "MarkupDecl" => MarkupDecl,
        "CommentStart" => CommentStart,
        "CommentStartDash" => CommentStartDash,
        "Comment" => Comment,
        "CommentLessThan" => CommentLessThan,
        "CommentLessThanBang" => CommentLessThanBang,
        "CommentLessThanBangDash" => CommentLessThanBangDash,
        "CommentLessThanBangDashDash" => CommentLessThanBangDashDash,
        "CommentEnd" => CommentEnd,
        "CommentEndDash" => CommentEndDash,
        "CommentEndBang" => CommentEndBang,
        "Cdata" => Cdata,
        "CdataBracket" => CdataBracket,
        "CdataEnd" => CdataEnd,
        "TagName" => TagName,
        "TagEmpty" => TagEmpty,
        "TagAttrNameBefore" => TagAttrNameBefore,
        "TagAttrName" => TagAttrName,
        "TagAttrNameAfter" => TagAttrNameAfter,
        "TagAttrValueBefore" => TagAttrValueBefore,
        "TagAttrValue" => TagAttrValue(avk(p[1])),
        "Doctype" => Doctype,
        "BeforeDoctypeName" => BeforeDoctypeName,
        "DoctypeName" => DoctypeName,
        "AfterDoctypeName" => AfterDoctypeName,
        "AfterDoctypeKeyword" => AfterDoctypeKeyword(dk(p[1])),
        "BeforeDoctypeIdentifier" => BeforeDoctypeIdentifier(dk(p[1])),
        "DoctypeIdentifierDoubleQuoted" => DoctypeIdentifierDoubleQuoted(dk(p[1])),
        "DoctypeIdentifierSingleQuoted" => DoctypeIdentifierSingleQuoted(dk(p[1])),
        "AfterDoctypeIdentifier" => AfterDoctypeIdentifier(dk(p[1])),
        "BetweenDoctypePublicAndSystemIdentifiers" => BetweenDoctypePublicAndSystemIdentifiers,
        "BogusDoctype" => BogusDoctype,
        "BogusComment" => BogusComment,
        x => panic!("xml state {x}"),
    }
}

struct XSink {
    out: RefCell<Vec<String>>,
}

impl TokenSink for XSink {
    type Handle = ();
    fn process_token(&self, token: Token) -> ProcessResult<()> {
        let s = match &token {
            Token::Characters(t) => format!("Chars {}", cps(t)),
            Token::NullCharacter => "Null".to_string(),
            Token::EndOfFile => "EOF".to_string(),
            Token::Comment(t) => format!("Comment {}", cps(t)),
            Token::ParseError(_) => "Error".to_string(),
            Token::ProcessingInstruction(pi) => format!("PI [{}] [{}]", cps(&pi.target), cps(&pi.data)),
            Token::Doctype(d) => {
                let o = |x: &Option<StrTendril>| match x {
                    Some(t) => format!("[{}]", cps(t)),
                    None => "-".to_string(),
                };
                format!("Doctype {} {} {} false", o(&d.name), o(&d.public_id), o(&d.system_id))
            },
            Token::Tag(Tag { kind, name, attrs }) => {
                let k = match kind {
                    TagKind::StartTag => "StartTag",
                    TagKind::EndTag => "EndTag",
                    TagKind::EmptyTag => "EmptyTag",
                    TagKind::ShortTag => "ShortTag",
                };
                let a: Vec<String> = attrs.iter().map(|a| format!("{}={}", qn(&a.name), cps(&a.value))).collect();
                format!("XTag {} [{}] [{}]", k, qn(name), a.join(" "))
            },
        };
        self.out.borrow_mut().push(format!("{s} @0"));
        ProcessResult::Continue
    }
}

pub fn run(state: &str, exact: bool, bom: bool, profile: bool, chunks: &[String], end: bool) {
    let tok = XmlTokenizer::new(
        XSink { out: RefCell::new(vec![]) },
        XmlTokenizerOpts {
            exact_errors: exact,
            discard_bom: bom,
            profile,
            initial_state: Some(xml_state(state)),
        },
    );
    let q = BufferQueue::default();
    let mut feeds: Vec<&str> = vec![];
    for c in chunks {
        q.push_back(StrTendril::from_slice(c));
        match tok.feed(&q) {
            TokenizerResult::Done => feeds.push("Done"),
            TokenizerResult::Script(_) => feeds.push("Script"),
            TokenizerResult::EncodingIndicator(_) => feeds.push("EncodingIndicator"),
        }
        if !q.is_empty() {
            feeds.push("QUEUE-NOT-EMPTY");
        }
    }
    if end {
        tok.end();
    }
    for l in tok.sink.out.borrow().iter() {
        println!("{l}");
    }
    println!("feeds {}", feeds.join(","));
}
