//! A TreeSink that forwards to RcDom and validates, before forwarding, what the TreeSink trait documents the tree builder
//! promises (C05), and that keeps, per suspension point, the set of nodes reachable from trace_handles (C18).
//! Used only to confirm natively what engine M found on the interpreted MIR.
use html5ever::tendril::StrTendril;
use html5ever::tree_builder::{ElementFlags, NodeOrText, QuirksMode, Tracer, TreeSink};
use html5ever::{Attribute, ExpandedName, QualName};
use markup5ever_rcdom::{Handle, NodeData, RcDom};
use std::borrow::Cow;
use std::cell::{Cell, RefCell};
use std::collections::HashSet;
use std::rc::Rc;

pub struct Mon {
    pub dom: RcDom,
    pub bad: RefCell<Vec<String>>,
    created: RefCell<Vec<Handle>>,
    doctypes: Cell<u32>,
    /// per pause: (kind, ids reachable from the traced handles, number of nodes created so far)
    pauses: RefCell<Vec<(String, HashSet<usize>, usize)>>,
    pub trace_bad: RefCell<Vec<String>>,
}

fn id(h: &Handle) -> usize {
    Rc::as_ptr(h) as usize
}

impl Mon {
    pub fn new() -> Mon {
        let dom = RcDom::default();
        let doc = dom.document.clone();
        Mon { dom, bad: RefCell::new(vec![]), created: RefCell::new(vec![doc]), doctypes: Cell::new(0), pauses: RefCell::new(vec![]), trace_bad: RefCell::new(vec![]) }
    }
    fn desc(&self, h: &Handle) -> String {
        match &h.data {
            NodeData::Element { name, .. } => format!("<{}>", &*name.local),
            NodeData::Text { .. } => "text".into(),
            NodeData::Comment { .. } => "comment".into(),
            NodeData::Document => "document".into(),
            NodeData::Doctype { .. } => "doctype".into(),
            NodeData::ProcessingInstruction { .. } => "pi".into(),
        }
    }
    fn flag(&self, m: String) {
        self.bad.borrow_mut().push(m);
    }
    fn known(&self, h: &Handle, what: &str) -> bool {
        let k = self.created.borrow().iter().any(|c| Rc::ptr_eq(c, h));
        if !k {
            self.flag(format!("{what}: handle was not created by this sink"));
        }
        k
    }
    fn use_(&self, h: &Handle, call: &str) {
        // C18: a node created before a pause must have been reachable from the traced handles at that pause
        let created = self.created.borrow();
        let idx = created.iter().position(|c| Rc::ptr_eq(c, h));
        if let Some(idx) = idx {
            for (kind, allowed, n) in self.pauses.borrow().iter() {
                if idx < *n && idx != 0 && !allowed.contains(&id(h)) {
                    self.trace_bad.borrow_mut().push(format!("after the pause ({kind}) the tree builder passes {} to {call}, a node created before the pause that was neither traced nor connected to a traced node", self.desc(h)));
                }
            }
        }
    }
    fn need_element(&self, h: &Handle, what: &str) -> bool {
        if !self.known(h, what) {
            return false;
        }
        if !matches!(h.data, NodeData::Element { .. }) {
            self.flag(format!("{what} called on {}, which is not an element", self.desc(h)));
            return false;
        }
        true
    }
    fn has_parent(h: &Handle) -> bool {
        let p = h.parent.take();
        let r = p.as_ref().and_then(|w| w.upgrade()).is_some();
        h.parent.set(p);
        r
    }
    fn parent_of(h: &Handle) -> Option<Handle> {
        let p = h.parent.take();
        let r = p.as_ref().and_then(|w| w.upgrade());
        h.parent.set(p);
        r
    }
    fn is_ancestor_or_self(a: &Handle, n: &Handle) -> bool {
        let mut cur = Some(n.clone());
        while let Some(c) = cur {
            if Rc::ptr_eq(&c, a) {
                return true;
            }
            cur = Self::parent_of(&c);
        }
        false
    }
    fn dup_attrs(&self, attrs: &[Attribute], what: &str) {
        for i in 0..attrs.len() {
            for j in 0..i {
                if attrs[i].name == attrs[j].name {
                    self.flag(format!("{what}: the attribute list contains the qualified name {:?} twice", attrs[i].name.local));
                }
            }
        }
    }
    /// what a script may do at a pause: remove the n-th element this sink created from its parent
    pub fn script_detach(&self, n: usize) {
        let h = self.created.borrow().iter().filter(|c| matches!(c.data, NodeData::Element { .. })).nth(n).cloned();
        if let Some(h) = h {
            self.dom.remove_from_parent(&h);
        }
    }
    /// record a suspension point: everything connected to a traced handle
    pub fn pause(&self, kind: &str, traced: &[Handle]) {
        let mut seen: HashSet<usize> = HashSet::new();
        let mut work: Vec<Handle> = traced.to_vec();
        while let Some(h) = work.pop() {
            if !seen.insert(id(&h)) {
                continue;
            }
            if let Some(p) = Self::parent_of(&h) {
                work.push(p);
            }
            for c in h.children.borrow().iter() {
                work.push(c.clone());
            }
            if let NodeData::Element { template_contents, .. } = &h.data {
                if let Some(t) = template_contents.borrow().as_ref() {
                    work.push(t.clone());
                }
            }
        }
        // a template's contents fragment is connected to its template
        loop {
            let mut grew = false;
            for c in self.created.borrow().iter() {
                if let NodeData::Element { template_contents, .. } = &c.data {
                    if let Some(t) = template_contents.borrow().as_ref() {
                        if seen.contains(&id(t)) && seen.insert(id(c)) {
                            grew = true;
                        }
                    }
                }
            }
            if !grew {
                break;
            }
        }
        let n = self.created.borrow().len();
        self.pauses.borrow_mut().push((kind.to_string(), seen, n));
    }
}

pub struct Collect(pub RefCell<Vec<Handle>>);
impl Tracer for Collect {
    type Handle = Handle;
    fn trace_handle(&self, node: &Handle) {
        self.0.borrow_mut().push(node.clone());
    }
}

impl TreeSink for Mon {
    type Output = Self;
    fn finish(self) -> Self {
        self
    }
    type Handle = Handle;
    type ElemName<'a>
        = ExpandedName<'a>
    where
        Self: 'a;

    fn parse_error(&self, msg: Cow<'static, str>) {
        self.dom.parse_error(msg)
    }
    fn get_document(&self) -> Handle {
        self.dom.get_document()
    }
    fn elem_name<'a>(&'a self, target: &'a Handle) -> ExpandedName<'a> {
        self.use_(target, "elem_name");
        if !self.need_element(target, "elem_name") {
            println!("contract elem_name on a non-element");
            std::process::exit(7);
        }
        self.dom.elem_name(target)
    }
    fn create_element(&self, name: QualName, attrs: Vec<Attribute>, flags: ElementFlags) -> Handle {
        self.dup_attrs(&attrs, "create_element");
        let h = self.dom.create_element(name, attrs, flags);
        self.created.borrow_mut().push(h.clone());
        if let NodeData::Element { template_contents, .. } = &h.data {
            if let Some(t) = template_contents.borrow().as_ref() {
                self.created.borrow_mut().push(t.clone());
            }
        }
        h
    }
    fn create_comment(&self, text: StrTendril) -> Handle {
        let h = self.dom.create_comment(text);
        self.created.borrow_mut().push(h.clone());
        h
    }
    fn create_pi(&self, target: StrTendril, data: StrTendril) -> Handle {
        let h = self.dom.create_pi(target, data);
        self.created.borrow_mut().push(h.clone());
        h
    }
    fn append(&self, parent: &Handle, child: NodeOrText<Handle>) {
        self.use_(parent, "append");
        if self.known(parent, "append") {
            if !matches!(parent.data, NodeData::Document | NodeData::Element { .. }) && Self::has_parent(parent) {
                self.flag(format!("append: parent {} cannot have children", self.desc(parent)));
            }
            if let NodeOrText::AppendNode(h) = &child {
                self.use_(h, "append");
                if self.known(h, "append") {
                    if Self::has_parent(h) {
                        self.flag(format!("append: child {} already has a parent", self.desc(h)));
                        return;
                    }
                    if Self::is_ancestor_or_self(h, parent) {
                        self.flag(format!("append: {} inserted under itself or one of its descendants", self.desc(h)));
                        return;
                    }
                }
            }
        }
        self.dom.append(parent, child)
    }
    fn append_based_on_parent_node(&self, element: &Handle, prev_element: &Handle, child: NodeOrText<Handle>) {
        if Self::has_parent(element) {
            self.append_before_sibling(element, child)
        } else {
            self.append(prev_element, child)
        }
    }
    fn append_doctype_to_document(&self, name: StrTendril, public_id: StrTendril, system_id: StrTendril) {
        self.doctypes.set(self.doctypes.get() + 1);
        if self.doctypes.get() > 1 {
            self.flag("append_doctype_to_document: a second doctype is appended".into());
        }
        if self.dom.document.children.borrow().iter().any(|c| matches!(c.data, NodeData::Element { .. })) {
            self.flag("append_doctype_to_document: the document already has an element child".into());
        }
        self.dom.append_doctype_to_document(name, public_id, system_id)
    }
    fn mark_script_already_started(&self, node: &Handle) {
        self.use_(node, "mark_script_already_started");
        if self.need_element(node, "mark_script_already_started") {
            if let NodeData::Element { name, .. } = &node.data {
                if &*name.local != "script" {
                    self.flag(format!("mark_script_already_started called on {}, which is not a script element", self.desc(node)));
                }
            }
        }
    }
    fn pop(&self, node: &Handle) {
        self.use_(node, "pop");
        self.dom.pop(node)
    }
    fn get_template_contents(&self, target: &Handle) -> Handle {
        self.use_(target, "get_template_contents");
        let ok = self.need_element(target, "get_template_contents")
            && matches!(&target.data, NodeData::Element { template_contents, .. } if template_contents.borrow().is_some());
        if !ok {
            self.flag(format!("get_template_contents called on {}, which is not a template element", self.desc(target)));
            println!("contract get_template_contents on a non-template");
            std::process::exit(7);
        }
        self.dom.get_template_contents(target)
    }
    fn same_node(&self, x: &Handle, y: &Handle) -> bool {
        self.use_(x, "same_node");
        self.use_(y, "same_node");
        self.dom.same_node(x, y)
    }
    fn set_quirks_mode(&self, mode: QuirksMode) {
        self.dom.set_quirks_mode(mode)
    }
    fn append_before_sibling(&self, sibling: &Handle, new_node: NodeOrText<Handle>) {
        self.use_(sibling, "append_before_sibling");
        if self.known(sibling, "append_before_sibling") {
            if matches!(sibling.data, NodeData::Text { .. }) {
                self.flag("append_before_sibling: the reference sibling is a text node".into());
            }
            if !Self::has_parent(sibling) {
                self.flag(format!("append_before_sibling: the reference sibling {} has no parent", self.desc(sibling)));
                return;
            }
            if let NodeOrText::AppendNode(h) = &new_node {
                self.use_(h, "append_before_sibling");
                if Rc::ptr_eq(h, sibling) {
                    self.flag("append_before_sibling: node inserted before itself".into());
                    return;
                }
                if let Some(p) = Self::parent_of(sibling) {
                    if Self::is_ancestor_or_self(h, &p) {
                        self.flag(format!("append_before_sibling: {} inserted under itself or one of its descendants", self.desc(h)));
                        return;
                    }
                }
            }
        }
        self.dom.append_before_sibling(sibling, new_node)
    }
    fn add_attrs_if_missing(&self, target: &Handle, attrs: Vec<Attribute>) {
        self.use_(target, "add_attrs_if_missing");
        self.dup_attrs(&attrs, "add_attrs_if_missing");
        if self.need_element(target, "add_attrs_if_missing") {
            self.dom.add_attrs_if_missing(target, attrs)
        }
    }
    fn associate_with_form(&self, target: &Handle, form: &Handle, nodes: (&Handle, Option<&Handle>)) {
        self.use_(target, "associate_with_form");
        self.use_(form, "associate_with_form");
        if self.need_element(target, "associate_with_form (target)") && self.need_element(form, "associate_with_form (form)") {
            if let NodeData::Element { name, .. } = &form.data {
                if &*name.local != "form" {
                    self.flag(format!("associate_with_form: the form argument {} is not a form element", self.desc(form)));
                }
            }
        }
        self.dom.associate_with_form(target, form, nodes)
    }
    fn remove_from_parent(&self, target: &Handle) {
        self.use_(target, "remove_from_parent");
        if self.known(target, "remove_from_parent") {
            self.dom.remove_from_parent(target)
        }
    }
    fn reparent_children(&self, node: &Handle, new_parent: &Handle) {
        self.use_(node, "reparent_children");
        self.use_(new_parent, "reparent_children");
        if self.known(node, "reparent_children") && self.known(new_parent, "reparent_children") {
            let inside = node.children.borrow().iter().any(|k| Self::is_ancestor_or_self(k, new_parent));
            if inside {
                self.flag("reparent_children: the new parent lies inside a moved child".into());
                return;
            }
            self.dom.reparent_children(node, new_parent)
        }
    }
    fn is_mathml_annotation_xml_integration_point(&self, handle: &Handle) -> bool {
        self.use_(handle, "is_mathml_annotation_xml_integration_point");
        if !self.need_element(handle, "is_mathml_annotation_xml_integration_point") {
            return false;
        }
        self.dom.is_mathml_annotation_xml_integration_point(handle)
    }
    fn set_current_line(&self, n: u64) {
        self.dom.set_current_line(n)
    }
    fn allow_declarative_shadow_roots(&self, p: &Handle) -> bool {
        self.dom.allow_declarative_shadow_roots(p)
    }
    fn attach_declarative_shadow(&self, location: &Handle, template: &Handle, attrs: &[Attribute]) -> bool {
        self.use_(location, "attach_declarative_shadow");
        self.use_(template, "attach_declarative_shadow");
        self.need_element(location, "attach_declarative_shadow (location)");
        self.need_element(template, "attach_declarative_shadow (template)");
        self.dom.attach_declarative_shadow(location, template, attrs)
    }
    fn maybe_clone_an_option_into_selectedcontent(&self, option: &Handle) {
        self.use_(option, "maybe_clone_an_option_into_selectedcontent");
        if self.need_element(option, "maybe_clone_an_option_into_selectedcontent") {
            if let NodeData::Element { name, .. } = &option.data {
                if &*name.local != "option" {
                    self.flag(format!("maybe_clone_an_option_into_selectedcontent called on {}, which is not an option element", self.desc(option)));
                }
            }
            self.dom.maybe_clone_an_option_into_selectedcontent(option)
        }
    }
}
