#!/bin/bash
# Runs the repository's pinned baseline with the verification guard OFF (no --cfg html5ever_verif)
# and compares the passing set with /root/.vp/BASELINE.json's stable_pass list.
set -u
cd /repo
export CARGO_NET_OFFLINE=true
unset RUSTFLAGS
OUT=$(mktemp -d)
cargo test --workspace --no-fail-fast --offline >$OUT/test.log 2>&1
python3 - "$OUT" <<'PY'
import json,sys,re,os
out=sys.argv[1]
base=json.load(open('/root/.vp/BASELINE.json'))['stable_pass']
passed=set(); prefix=None
for line in open(os.path.join(out,'test.log'),errors='replace'):
    line=line.rstrip('\n')
    m=re.match(r'\s+Running (unittests )?(\S+) \((\S+)\)',line)
    if m:
        exe=os.path.basename(m.group(3)); name=exe.rsplit('-',1)[0]
        prefix=name.replace('-','_'); unit=bool(m.group(1)); continue
    m=re.match(r'\s+Doc-tests (\S+)',line)
    if m: prefix='doctest:'+m.group(1); continue
    m=re.match(r'test (.*) \.\.\. ok$',line)
    if m and prefix:
        passed.add(prefix+'::'+m.group(1))
def norm(t):  # the generated named_entities doctest path carries a build hash
    return re.sub(r'web_atoms-[0-9a-f]+','web_atoms-HASH',t)
passedn={norm(p) for p in passed}
missing=[t for t in base if norm(t) not in passedn]
print("baseline stable_pass=%d passed_now=%d missing=%d"%(len(base),len(passed),len(missing)))
for m in missing: print("  MISSING",m)
sys.exit(1 if missing else 0)
PY
rc=$?
rm -rf "$OUT"
exit $rc
