#!/bin/bash
# usage: mut_eval2.sh <tag> <worktree> <diff> <check> [<check> ...]   (runs against the scratch worktree, never touches /repo)
tag=$1; wt=$2; diff=$3; shift 3
cd $wt && git checkout -q -- . && git apply $diff || { echo "$tag APPLY-FAILED"; exit 1; }
for c in "$@"; do
  cd /verif && VERIF_REPO=$wt VERIF_JOBS=${VERIF_JOBS:-8} timeout 5000 python3-vt run.py $c --tier quick > /tmp/mut-$tag-$c.log 2>&1
  rc=$?
  echo "$tag $c exit=$rc $(grep -c '^VIOLATION' /tmp/mut-$tag-$c.log) violations; $(grep -m1 -A1 '^VIOLATION' /tmp/mut-$tag-$c.log | tail -1 | cut -c1-300)"
done
cd $wt && git checkout -q -- .
