#!/usr/bin/env python3
"""Confirm a seeded change in the scratch worktree /tmp/wt-confirm: the demonstration fails with the change and passes
without it, and the pinned test suite still passes with it."""
import sys, os, subprocess, json, re, glob, shutil
WT='/tmp/wt-confirm'
env=dict(os.environ, CARGO_TARGET_DIR=WT+'/target', CARGO_NET_OFFLINE='true')
def sh(cmd, **kw):
    return subprocess.run(cmd, shell=True, cwd=WT, env=env, stdout=subprocess.PIPE, stderr=subprocess.STDOUT, **kw)
def demo_cmd(path):
    top=path.split('/')[0]; stem=os.path.basename(path)[:-3]
    pkg={'rcdom':'markup5ever_rcdom'}.get(top, top)
    return "cargo test -p %s --test %s --offline" % (pkg, stem)
def suite():
    r=sh("cargo test --workspace --no-fail-fast --offline")
    out=r.stdout.decode(errors='replace')
    base=json.load(open('/root/.vp/BASELINE.json'))['stable_pass']
    passed=set(); prefix=None
    for line in out.splitlines():
        m=re.match(r'\s+Running (unittests )?(\S+) \((\S+)\)',line)
        if m:
            prefix=os.path.basename(m.group(3)).rsplit('-',1)[0].replace('-','_'); continue
        m=re.match(r'\s+Doc-tests (\S+)',line)
        if m: prefix='doctest:'+m.group(1); continue
        m=re.match(r'test (.*) \.\.\. ok$',line)
        if m and prefix: passed.add(prefix+'::'+m.group(1))
    norm=lambda t: re.sub(r'web_atoms-[0-9a-f]+','web_atoms-HASH',t).replace('/tmp/wt-confirm','/repo')
    pn={norm(p) for p in passed}
    missing=[t for t in base if norm(t) not in pn]
    return len(missing), missing[:3]
def main():
    pid, n = sys.argv[1], sys.argv[2]
    src='/tmp/wt-%s'%pid; outd='/tmp/wt-%s-out'%pid
    demos=[l[3:] for l in subprocess.check_output(['git','-C',src,'status','--porcelain','-uall']).decode().splitlines() if l.startswith('??') and l.endswith('.rs')]
    demo=[d for d in demos if re.search(r'demo%s'%n, d)][0]
    sh("git checkout -q -- . && git clean -fdq -- rcdom/tests html5ever/tests html5ever/examples xml5ever/tests tendril/tests")
    os.makedirs(os.path.dirname(os.path.join(WT,demo)),exist_ok=True)
    shutil.copy(os.path.join(src,demo), os.path.join(WT,demo))
    res={"property":pid,"mutant":int(n),"demo":demo,"demo_cmd":demo_cmd(demo)}
    r0=sh(demo_cmd(demo)); res["demo_without_change"]="pass" if r0.returncode==0 else "FAIL"
    a=sh("git apply %s/mutant%s.diff"%(outd,n)); res["applies"]=a.returncode==0
    r1=sh(demo_cmd(demo)); res["demo_with_change"]="fail" if r1.returncode!=0 else "PASSES"
    res["demo_failure_excerpt"]="\n".join(l for l in r1.stdout.decode(errors='replace').splitlines() if 'panicked' in l or 'assert' in l or 'test result' in l)[:600]
    miss,ex=suite(); res["suite_missing_with_change"]=miss; res["suite_missing_examples"]=ex
    sh("git checkout -q -- .")
    res["confirmed"]= res["demo_without_change"]=="pass" and res["demo_with_change"]=="fail" and miss==0 and res["applies"]
    print(json.dumps(res))
main()
