#!/usr/bin/env python3
"""Fill seeded/<id>/meta.json with the outcome of running the quick checks against each seeded change
(logs written by tools/mut_eval.sh: '<Cxx>m<n> <check> exit=<rc> <k> violations; <first violation>')."""
import json, re, glob, os, sys
logs = sys.argv[1:]
lines = [l.strip() for f in logs if os.path.exists(f) for l in open(f) if re.match(r'^C\d+m\d ', l)]
res = {}
for l in lines:
    m = re.match(r'^(C\d+)m(\d) (C\d+) exit=(\d+) (\d+) violations;\s*(.*)$', l)
    if not m:
        continue
    key = "%s-m%s" % (m.group(1), m.group(2))
    res.setdefault(key, {})[m.group(3)] = {"quick_exit": int(m.group(4)), "violations_reported": int(m.group(5)), "first_violation": m.group(6)[:400]}
outside = {
    "C07-m3": "needs an attribute value of >= 64 bytes; the harness bound is 4/6 bytes (stated)",
    "C11-m1": "needs push_tendril between two distinct heap buffers; that harness exhausts CBMC's memory (37 M variables) and is not in the registered list",
}
for d in sorted(glob.glob(os.path.join(os.path.dirname(os.path.abspath(__file__)), '..', 'seeded', '*', 'meta.json'))):
    m = json.load(open(d))
    k = m['id']
    runs = dict(m.get('checks_run', {}))
    runs.update(res.get(k, {}))          # later logs override earlier results for the same check
    m['checks_run'] = runs
    caught = [c for c, v in runs.items() if v['quick_exit'] == 1]
    m['caught_by_quick_checks'] = caught
    m.pop('not_caught_reason', None)
    if not caught and k in outside:
        m['not_caught_reason'] = outside[k]
    json.dump(m, open(d, 'w'), indent=1)
    print(k, 'caught by', caught or ('-- ' + outside.get(k, '(not evaluated yet)')))
