#!/usr/bin/env python3
"""MANIFEST.setup_cmd: build everything the checks need from files on disk only (offline).
Pre-builds the native replay binaries and warms the cargo caches; the Kani/CBMC and mirsym
checks rebuild from /repo's working tree on every run anyway."""
import os, subprocess, sys
V = os.path.dirname(os.path.abspath(__file__))
env = dict(os.environ, CARGO_NET_OFFLINE="true")
os.makedirs(os.path.join(V, ".cache"), exist_ok=True)
ok = True
for crate in sorted(os.listdir(os.path.join(V, "kani"))):
    d = os.path.join(V, "kani", crate)
    if not os.path.exists(os.path.join(d, "Cargo.toml")):
        continue
    e = dict(env, CARGO_TARGET_DIR=os.path.join(V, ".cache", "native-" + crate))
    r = subprocess.run(["cargo", "build", "--offline", "--bin", "replay"], cwd=d, env=e)
    ok = ok and r.returncode == 0
e = dict(env, CARGO_TARGET_DIR=os.path.join(V, ".cache", "native-replay"))
for prof in ([], ["--release"]):
    r = subprocess.run(["cargo", "build", "--offline"] + prof, cwd=os.path.join(V, "replay"), env=e)
    ok = ok and r.returncode == 0
sys.exit(0 if ok else 1)
