#!/usr/bin/env python3
"""MANIFEST.setup_cmd: build everything the checks need from files on disk only (offline).
Pre-builds the native replay binaries and warms the cargo caches; the Kani/CBMC and mirsym
checks rebuild from /repo's working tree on every run anyway."""
import os, subprocess, sys
V = os.path.dirname(os.path.abspath(__file__))
env = dict(os.environ, CARGO_NET_OFFLINE="true")
os.makedirs(os.path.join(V, ".cache"), exist_ok=True)
ok = True
for crate in sorted(os.listdir(os.path.join(V, "kani"))):
    d = os.path.join(V, "kani", crate)
    if not os.path.exists(os.path.join(d, "Cargo.toml")):
        continue
    e = dict(env, CARGO_TARGET_DIR=os.path.join(V, ".cache", "native-" + crate))
    r = subprocess.run(["cargo", "build", "--offline", "--bin", "replay"], cwd=d, env=e)
    ok = ok and r.returncode == 0
# warm the Kani target directories the quick tiers use (one per parallel slot), so that a quick check does not pay
# six cold dependency builds inside its time budget
import concurrent.futures
def warm(args):
    crate, slot = args
    d = os.path.join(V, "kani", crate)
    t = os.path.join(V, ".cache", "kani-%s-%d" % (crate, slot))
    with open(os.path.join(V, ".cache", "warm-%s-%d.log" % (crate, slot)), "w") as f:
        return subprocess.run(["cargo", "kani", "-Z", "stubbing", "--only-codegen", "--target-dir", t], cwd=d, env=env, stdout=f, stderr=subprocess.STDOUT).returncode
jobs = [("ser", sl) for sl in range(6)] + [("bq", sl) for sl in range(12)] + [("td", sl) for sl in range(6)]
with concurrent.futures.ThreadPoolExecutor(6) as ex:
    rcs = list(ex.map(warm, jobs))
# (a failed warm-up is not fatal: the checks build what they need)
e = dict(env, CARGO_TARGET_DIR=os.path.join(V, ".cache", "native-replay"))
for prof in ([], ["--release"]):
    r = subprocess.run(["cargo", "build", "--offline"] + prof, cwd=os.path.join(V, "replay"), env=e)
    ok = ok and r.returncode == 0
sys.exit(0 if ok else 1)
